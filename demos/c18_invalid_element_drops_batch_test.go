package test

// Demonstration against the real store: AddVertex and BulkAdd of the embedded graph
// collect the errors of rejected elements and returned them from inside the bulk write;
// every driver discards a bulk write whose function returns an error, so one invalid
// element made all valid elements of the same call disappear.

import (
	"path/filepath"
	"testing"

	"github.com/bmeg/grip/gdbi"
	"github.com/bmeg/grip/kvgraph"
	_ "github.com/bmeg/grip/kvi/badgerdb"
	_ "github.com/bmeg/grip/kvi/boltdb"
)

func TestDemoInvalidElementDropsBatch(t *testing.T) {
	for _, drv := range []string{"badger", "bolt"} {
		dir := t.TempDir()
		g, err := kvgraph.NewKVGraphDB(drv, filepath.Join(dir, "db"))
		if err != nil {
			t.Fatal(err)
		}
		g.AddGraph("bw")
		gi, _ := g.Graph("bw")
		err = gi.AddVertex([]*gdbi.Vertex{
			{ID: "good1", Label: "P", Data: map[string]interface{}{}, Loaded: true},
			{ID: "", Label: "P", Data: map[string]interface{}{}, Loaded: true},
			{ID: "good2", Label: "P", Data: map[string]interface{}{}, Loaded: true},
		})
		t.Logf("%s: AddVertex([good1, invalid, good2]) error: %v", drv, err)
		for _, id := range []string{"good1", "good2"} {
			if gi.GetVertex(id, true) == nil {
				t.Errorf("%s: valid vertex %s was not stored because another element of the call was invalid", drv, id)
			}
		}
		ch := make(chan *gdbi.GraphElement, 10)
		ch <- &gdbi.GraphElement{Graph: "bw", Vertex: &gdbi.Vertex{ID: "b1", Label: "P", Data: map[string]interface{}{}, Loaded: true}}
		ch <- &gdbi.GraphElement{Graph: "bw", Vertex: &gdbi.Vertex{ID: "", Label: "P", Data: map[string]interface{}{}, Loaded: true}}
		ch <- &gdbi.GraphElement{Graph: "bw", Vertex: &gdbi.Vertex{ID: "b2", Label: "P", Data: map[string]interface{}{}, Loaded: true}}
		close(ch)
		err = gi.BulkAdd(ch)
		t.Logf("%s: BulkAdd([b1, invalid, b2]) error: %v", drv, err)
		for _, id := range []string{"b1", "b2"} {
			if gi.GetVertex(id, true) == nil {
				t.Errorf("%s: valid vertex %s of a bulk stream was not stored because another element was invalid", drv, id)
			}
		}
		g.Close()
	}
}
