package test

// Demonstration against the real engine: unwind on an element whose data was not loaded,
// or on a traveler without a current element.

import (
	"os"
	"path/filepath"
	"testing"

	"github.com/bmeg/grip/gdbi"
	"github.com/bmeg/grip/gripql"
	"github.com/bmeg/grip/kvgraph"
	_ "github.com/bmeg/grip/kvi/badgerdb"
)

func unwindQ(q *gripql.Query) *gripql.Query {
	return &gripql.Query{Statements: append(q.Statements, &gripql.GraphStatement{Statement: &gripql.GraphStatement_Unwind{Unwind: "x"}})}
}

func TestDemoUnwindPanics(t *testing.T) {
	dir := t.TempDir()
	g, err := kvgraph.NewKVGraphDB("badger", filepath.Join(dir, "db"))
	if err != nil {
		t.Fatal(err)
	}
	defer g.Close()
	g.AddGraph("ug")
	gi, _ := g.Graph("ug")
	gi.AddVertex([]*gdbi.Vertex{
		{ID: "a", Label: "P", Data: map[string]interface{}{"x": []interface{}{1.0, 2.0}}, Loaded: true},
		{ID: "b", Label: "P", Data: map[string]interface{}{}, Loaded: true},
	})
	work := filepath.Join(dir, "work")
	os.MkdirAll(work, 0o755)
	n := countRowsDup(t, gi, work, unwindQ(gripql.NewQuery().V()).Count())
	t.Logf("V().unwind(x).count(): %d rows", n)
	n = countRowsDup(t, gi, work, unwindQ(gripql.NewQuery().V().OutNull("nolabel")))
	t.Logf("V().outNull(nolabel).unwind(x): %d rows", n)
	for name, q := range map[string]*gripql.Query{
		"outNull.out":   gripql.NewQuery().V().OutNull("nolabel").Out(),
		"outNull.in":    gripql.NewQuery().V().OutNull("nolabel").In(),
		"outNull.outE":  gripql.NewQuery().V().OutNull("nolabel").OutE(),
		"outNull.inE":   gripql.NewQuery().V().OutNull("nolabel").InE(),
		"outNull.both":  gripql.NewQuery().V().OutNull("nolabel").Both(),
		"outNull.bothE": gripql.NewQuery().V().OutNull("nolabel").BothE(),
		"outNull.hasKey": gripql.NewQuery().V().OutNull("nolabel").HasKey("x"),
		"outNull.fields": gripql.NewQuery().V().OutNull("nolabel").Fields("x"),
		"outNull.distinct": gripql.NewQuery().V().OutNull("nolabel").Distinct("x"),
		"outNull.as.select": gripql.NewQuery().V().OutNull("nolabel").As("a").Select("a"),
	} {
		n := countRowsDup(t, gi, work, q)
		t.Logf("%s: %d rows", name, n)
	}
}
