package test

// Observation outside the reach of sequential contracts (C07 is not claimed): the both()
// step feeds every input traveler to two inner steps and reads their outputs only after
// its input is exhausted; all channels in between are bounded, so on a graph with a few
// thousand vertices V().both() stops making progress. The test fails by timeout.

import (
	"context"
	"fmt"
	"os"
	"path/filepath"
	"testing"
	"time"

	"github.com/bmeg/grip/engine/pipeline"
	"github.com/bmeg/grip/gdbi"
	"github.com/bmeg/grip/gripql"
	"github.com/bmeg/grip/kvgraph"
	_ "github.com/bmeg/grip/kvi/badgerdb"
)

func TestDemoBothStalls(t *testing.T) {
	dir := t.TempDir()
	g, err := kvgraph.NewKVGraphDB("badger", filepath.Join(dir, "db"))
	if err != nil {
		t.Fatal(err)
	}
	defer g.Close()
	g.AddGraph("ring")
	gi, _ := g.Graph("ring")
	const n = 5000
	vs := []*gdbi.Vertex{}
	es := []*gdbi.Edge{}
	for i := 0; i < n; i++ {
		vs = append(vs, &gdbi.Vertex{ID: fmt.Sprintf("v%05d", i), Label: "P", Data: map[string]interface{}{}, Loaded: true})
		es = append(es, &gdbi.Edge{ID: fmt.Sprintf("e%05d", i), Label: "next", From: fmt.Sprintf("v%05d", i), To: fmt.Sprintf("v%05d", (i+1)%n), Data: map[string]interface{}{}, Loaded: true})
	}
	gi.AddVertex(vs)
	gi.AddEdge(es)
	work := filepath.Join(dir, "work")
	os.MkdirAll(work, 0o755)
	for _, small := range []bool{true, false} {
		q := gripql.NewQuery().V().Both()
		if small {
			q = gripql.NewQuery().V().Limit(500).Both()
		}
		p, err := gi.Compiler().Compile(q.Statements, nil)
		if err != nil {
			t.Fatal(err)
		}
		done := make(chan int, 1)
		go func() {
			c := 0
			for range pipeline.Run(context.Background(), p, work) {
				c++
			}
			done <- c
		}()
		select {
		case c := <-done:
			t.Logf("small=%v: %d rows", small, c)
		case <-time.After(20 * time.Second):
			t.Fatalf("small=%v: V().both() over a ring of %d vertices made no progress for 20 s", small, n)
		}
	}
}
