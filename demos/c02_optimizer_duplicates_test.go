package test

// Demonstration against the real engine: the index-start rewrite hands duplicate ids /
// labels to the lookup, so equivalent spellings of a filter return different rows.

import (
	"context"
	"path/filepath"
	"testing"

	"github.com/bmeg/grip/engine/pipeline"
	"github.com/bmeg/grip/gdbi"
	"github.com/bmeg/grip/gripql"
	"github.com/bmeg/grip/kvgraph"
	_ "github.com/bmeg/grip/kvi/badgerdb"
)

func countRowsDup(t *testing.T, gi gdbi.GraphInterface, work string, q *gripql.Query) int {
	p, err := gi.Compiler().Compile(q.Statements, nil)
	if err != nil {
		t.Fatal(err)
	}
	n := 0
	for range pipeline.Run(context.Background(), p, work) {
		n++
	}
	return n
}

func TestDemoOptimizerDuplicates(t *testing.T) {
	dir := t.TempDir()
	g, err := kvgraph.NewKVGraphDB("badger", filepath.Join(dir, "db"))
	if err != nil {
		t.Fatal(err)
	}
	defer g.Close()
	g.AddGraph("og")
	gi, _ := g.Graph("og")
	gi.AddVertex([]*gdbi.Vertex{
		{ID: "a", Label: "L1", Data: map[string]interface{}{}, Loaded: true},
		{ID: "b", Label: "L1", Data: map[string]interface{}{}, Loaded: true},
		{ID: "c", Label: "L2", Data: map[string]interface{}{}, Loaded: true},
	})
	work := filepath.Join(dir, "work")
	if n := countRowsDup(t, gi, work, gripql.NewQuery().V().HasLabel("L1", "L1")); n != 2 {
		t.Errorf("V().hasLabel(L1, L1) returned %d rows, want 2", n)
	}
	if n := countRowsDup(t, gi, work, gripql.NewQuery().V().HasID("a", "a")); n != 1 {
		t.Errorf("V().hasId(a, a) returned %d rows, want 1", n)
	}
	// the literal (unoptimised) spelling for comparison: a filter after another step
	if n := countRowsDup(t, gi, work, gripql.NewQuery().V().Limit(10).HasLabel("L1", "L1")); n != 2 {
		t.Errorf("V().limit(10).hasLabel(L1, L1) returned %d rows, want 2", n)
	}
}
