package server

// Demonstration against the real server: an AddVertex / AddEdge request that carries no
// vertex / edge makes the handler dereference nil (the process dies; there is no recovery
// interceptor).

import (
	"context"
	"os"
	"testing"
	"time"

	"github.com/bmeg/grip/config"
	"github.com/bmeg/grip/gdbi"
	"github.com/bmeg/grip/gripql"
	"github.com/bmeg/grip/kvgraph"
	"github.com/bmeg/grip/server"
	"github.com/bmeg/grip/util"
	"github.com/bmeg/grip/util/rpc"
)

func TestDemoAddVertexWithoutVertex(t *testing.T) {
	ctx, cancel := context.WithCancel(context.Background())
	defer cancel()
	conf := config.DefaultConfig()
	config.TestifyConfig(conf)
	defer os.RemoveAll(conf.Server.WorkDir)
	tmpDB := "grip.db." + util.RandomString(6)
	gdb, err := kvgraph.NewKVGraphDB("badger", tmpDB)
	if err != nil {
		t.Fatal(err)
	}
	defer os.RemoveAll(tmpDB)
	srv, err := server.NewGripServer(conf, "./", map[string]gdbi.GraphDB{"badger": gdb})
	if err != nil {
		t.Fatal(err)
	}
	go srv.Serve(ctx)
	time.Sleep(300 * time.Millisecond)
	cli, err := gripql.Connect(rpc.ConfigWithDefaults(conf.Server.RPCAddress()), true)
	if err != nil {
		t.Fatal(err)
	}
	if err := cli.AddGraph("g1"); err != nil {
		t.Fatal(err)
	}
	if _, err := cli.EditC.AddVertex(context.Background(), &gripql.GraphElement{Graph: "g1"}); err == nil {
		t.Errorf("AddVertex without a vertex was accepted")
	}
	if _, err := cli.EditC.AddEdge(context.Background(), &gripql.GraphElement{Graph: "g1"}); err == nil {
		t.Errorf("AddEdge without an edge was accepted")
	}
	if _, err := cli.ListGraphs(); err != nil {
		t.Errorf("server no longer answers: %v", err)
	}
}
