package gripper

// Demonstration against the real code: an edge id that GenID builds from a row id
// containing '-' is refused by ParseEdge (GetEdge then returns nil for an edge the
// graph lists).

import "testing"

func TestDemoEdgeIDWithDash(t *testing.T) {
	es := &EdgeSource{
		fromVertex: &VertexSource{prefix: "p:"},
		toVertex:   &VertexSource{prefix: "q:"},
		config:     &EdgeConfig{Label: "knows"},
	}
	id := es.GenID("a-1", "b")
	src, dst, label, err := (&TabularGraph{}).ParseEdge(id)
	if err != nil {
		t.Fatalf("ParseEdge(GenID(%q, %q)) = error %v for id %q", "a-1", "b", err, id)
	}
	if src != "p:a-1" || dst != "q:b" || label != "knows" {
		t.Errorf("ParseEdge(%q) = %q %q %q", id, src, dst, label)
	}
}
