package test

// Demonstration against the real drivers: DeletePrefix on the pebble driver.

import (
	"path/filepath"
	"testing"

	"github.com/bmeg/grip/kvi"
	_ "github.com/bmeg/grip/kvi/badgerdb"
	_ "github.com/bmeg/grip/kvi/boltdb"
	_ "github.com/bmeg/grip/kvi/leveldb"
	_ "github.com/bmeg/grip/kvi/pebbledb"
)

func TestDemoDeletePrefixAllDrivers(t *testing.T) {
	for _, drv := range []string{"badger", "bolt", "level", "pebble"} {
		kv, err := kvi.NewKVInterface(drv, filepath.Join(t.TempDir(), "db"), nil)
		if err != nil {
			t.Fatalf("%s: %v", drv, err)
		}
		for _, k := range []string{"a1", "a2", "a3", "b1"} {
			kv.Set([]byte(k), []byte("x"))
		}
		if err := kv.DeletePrefix([]byte("a")); err != nil {
			t.Errorf("%s: DeletePrefix: %v", drv, err)
		}
		for _, k := range []string{"a1", "a2", "a3"} {
			if kv.HasKey([]byte(k)) {
				t.Errorf("%s: key %s is still stored after DeletePrefix(a)", drv, k)
			}
		}
		if !kv.HasKey([]byte("b1")) {
			t.Errorf("%s: key b1 was removed by DeletePrefix(a)", drv)
		}
		kv.Close()
	}
}
