package kvindex

// Demonstration against the real code: RemoveDoc recounts a term after deleting the
// entry and then subtracts one again.

import (
	"sort"
	"testing"

	"github.com/bmeg/grip/kvi"
	_ "github.com/bmeg/grip/kvi/badgerdb"
)

func TestDemoRemoveDocRecount(t *testing.T) {
	kv, err := kvi.NewKVInterface("badger", t.TempDir(), nil)
	if err != nil {
		t.Fatal(err)
	}
	defer kv.Close()
	idx := NewIndex(kv)
	idx.AddField("f")
	idx.AddDoc("d1", map[string]interface{}{"f": "A"})
	idx.AddDoc("d2", map[string]interface{}{"f": "A"})
	if err := idx.RemoveDoc("d1"); err != nil {
		t.Fatal(err)
	}
	var terms []string
	for x := range idx.FieldTerms("f") {
		terms = append(terms, x.(string))
	}
	sort.Strings(terms)
	if len(terms) != 1 || terms[0] != "A" {
		t.Errorf("terms of f after removing d1 = %v, want [A] (d2 still has f=A)", terms)
	}
	counts := map[string]uint64{}
	for c := range idx.FieldTermCounts("f") {
		counts[c.String] = c.Count
	}
	if counts["A"] != 1 {
		t.Errorf("count of A after removing d1 = %v, want 1", counts)
	}
}
