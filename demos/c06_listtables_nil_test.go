package server

// Demonstration against the real handler: ListTables ignores the error of
// GetCollectionInfo and dereferences the nil result.

import (
	"context"
	"fmt"
	"io"
	"testing"

	"github.com/bmeg/grip/gripper"
	"github.com/bmeg/grip/gripql"
	"google.golang.org/grpc"
)

type fakeCollections struct {
	grpc.ClientStream
	sent bool
}

func (f *fakeCollections) Recv() (*gripper.Collection, error) {
	if f.sent {
		return nil, io.EOF
	}
	f.sent = true
	return &gripper.Collection{Name: "c1"}, nil
}

type fakeSource struct{ gripper.GRIPSourceClient }

func (fakeSource) GetCollections(ctx context.Context, in *gripper.Empty, opts ...grpc.CallOption) (gripper.GRIPSource_GetCollectionsClient, error) {
	return &fakeCollections{}, nil
}
func (fakeSource) GetCollectionInfo(ctx context.Context, in *gripper.Collection, opts ...grpc.CallOption) (*gripper.CollectionInfo, error) {
	return nil, fmt.Errorf("table server unavailable")
}

type fakeTablesStream struct {
	grpc.ServerStream
	n int
}

func (s *fakeTablesStream) Send(*gripql.TableInfo) error { s.n++; return nil }

func TestDemoListTablesInfoError(t *testing.T) {
	srv := &GripServer{sources: map[string]gripper.GRIPSourceClient{"s1": fakeSource{}}}
	if err := srv.ListTables(&gripql.Empty{}, &fakeTablesStream{}); err != nil {
		t.Logf("ListTables returned %v", err)
	}
}
