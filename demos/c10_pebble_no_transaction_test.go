package test

// Demonstration against the real drivers: a function passed to Update that writes and then
// fails. bolt and badger discard the write (a transaction); the pebble driver has already
// applied it.

import (
	"fmt"
	"path/filepath"
	"testing"

	"github.com/bmeg/grip/kvi"
	_ "github.com/bmeg/grip/kvi/badgerdb"
	_ "github.com/bmeg/grip/kvi/boltdb"
	_ "github.com/bmeg/grip/kvi/pebbledb"
)

func TestDemoFailedUpdateIsDiscarded(t *testing.T) {
	for _, drv := range []string{"badger", "bolt", "pebble"} {
		kv, err := kvi.NewKVInterface(drv, filepath.Join(t.TempDir(), "db"), nil)
		if err != nil {
			t.Fatalf("%s: %v", drv, err)
		}
		kv.Update(func(tx kvi.KVTransaction) error {
			tx.Set([]byte("half"), []byte("x"))
			return fmt.Errorf("the second write of the transaction failed")
		})
		if kv.HasKey([]byte("half")) {
			t.Errorf("%s: the first write of a failed Update is stored: Update is not one atomic write", drv)
		}
		kv.Close()
	}
}
