package test

// Demonstration against the real engine: a traversal that follows a "null" edge
// (outENull/inENull emit a traveler without a current element for a vertex that has no
// matching edge) to its endpoint. LookupEdgeAdjOut/LookupEdgeAdjIn read
// t.GetCurrent().To / .From without checking for the missing element.

import (
	"os"
	"path/filepath"
	"testing"

	"github.com/bmeg/grip/gdbi"
	"github.com/bmeg/grip/gripql"
	"github.com/bmeg/grip/kvgraph"
	_ "github.com/bmeg/grip/kvi/badgerdb"
	"google.golang.org/protobuf/types/known/structpb"
)

func TestDemoEdgeNullAdjacency(t *testing.T) {
	dir := t.TempDir()
	g, err := kvgraph.NewKVGraphDB("badger", filepath.Join(dir, "db"))
	if err != nil {
		t.Fatal(err)
	}
	defer g.Close()
	g.AddGraph("ng")
	gi, _ := g.Graph("ng")
	gi.AddVertex([]*gdbi.Vertex{
		{ID: "a", Label: "P", Data: map[string]interface{}{}, Loaded: true},
		{ID: "b", Label: "P", Data: map[string]interface{}{}, Loaded: true},
	})
	gi.AddEdge([]*gdbi.Edge{{ID: "e1", Label: "knows", From: "a", To: "b", Data: map[string]interface{}{}, Loaded: true}})
	work := filepath.Join(dir, "work")
	os.MkdirAll(work, 0o755)
	labels, _ := structpb.NewList([]interface{}{"knows"})
	outENull := &gripql.GraphStatement{Statement: &gripql.GraphStatement_OutENull{OutENull: labels}}
	inENull := &gripql.GraphStatement{Statement: &gripql.GraphStatement_InENull{InENull: labels}}
	v := gripql.NewQuery().V().Statements
	// b has no outgoing "knows" edge: outENull emits a null traveler for it
	q := &gripql.Query{Statements: append(append([]*gripql.GraphStatement{}, v...), outENull)}
	n := countRowsDup(t, gi, work, q.Out())
	t.Logf("V().outENull(knows).out(): %d rows", n)
	q = &gripql.Query{Statements: append(append([]*gripql.GraphStatement{}, v...), inENull)}
	n = countRowsDup(t, gi, work, q.In())
	t.Logf("V().inENull(knows).in(): %d rows", n)
}
