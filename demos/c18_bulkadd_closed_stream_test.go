package server

// Demonstration against the real server: a bulk stream that names an unknown graph
// between two elements of a known graph makes the BulkAdd handler send on a closed
// channel (the process dies with "panic: send on closed channel").

import (
	"context"
	"os"
	"testing"
	"time"

	"github.com/bmeg/grip/config"
	"github.com/bmeg/grip/gdbi"
	"github.com/bmeg/grip/gripql"
	"github.com/bmeg/grip/kvgraph"
	"github.com/bmeg/grip/server"
	"github.com/bmeg/grip/util"
	"github.com/bmeg/grip/util/rpc"
	"google.golang.org/protobuf/types/known/structpb"
)

func TestDemoBulkAddUnknownGraphInStream(t *testing.T) {
	ctx, cancel := context.WithCancel(context.Background())
	defer cancel()
	conf := config.DefaultConfig()
	config.TestifyConfig(conf)
	defer os.RemoveAll(conf.Server.WorkDir)
	tmpDB := "grip.db." + util.RandomString(6)
	gdb, err := kvgraph.NewKVGraphDB("badger", tmpDB)
	if err != nil {
		t.Fatal(err)
	}
	defer os.RemoveAll(tmpDB)
	srv, err := server.NewGripServer(conf, "./", map[string]gdbi.GraphDB{"badger": gdb})
	if err != nil {
		t.Fatal(err)
	}
	go srv.Serve(ctx)
	time.Sleep(300 * time.Millisecond)
	cli, err := gripql.Connect(rpc.ConfigWithDefaults(conf.Server.RPCAddress()), true)
	if err != nil {
		t.Fatal(err)
	}
	if err := cli.AddGraph("g1"); err != nil {
		t.Fatal(err)
	}
	data, _ := structpb.NewStruct(map[string]interface{}{})
	elems := make(chan *gripql.GraphElement, 10)
	elems <- &gripql.GraphElement{Graph: "g1", Vertex: &gripql.Vertex{Gid: "a", Label: "P", Data: data}}
	elems <- &gripql.GraphElement{Graph: "nosuchgraph", Vertex: &gripql.Vertex{Gid: "x", Label: "P", Data: data}}
	elems <- &gripql.GraphElement{Graph: "g1", Vertex: &gripql.Vertex{Gid: "b", Label: "P", Data: data}}
	close(elems)
	if err := cli.BulkAdd(elems); err != nil {
		t.Logf("BulkAdd returned: %v", err)
	}
	for _, id := range []string{"a", "b"} {
		if v, err := cli.GetVertex("g1", id); err != nil || v == nil {
			t.Errorf("vertex %s of g1 was not stored: %v", id, err)
		}
	}
	if v, err := cli.GetVertex("nosuchgraph", "x"); err == nil && v != nil {
		t.Errorf("element addressed to an unknown graph was stored")
	}
}
