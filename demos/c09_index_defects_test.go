package kvgraph

// Demonstrations (run against the real code) of index defects found while writing
// the kvindex / kvgraph contracts. Injected with `go test -overlay`, never stored in
// the repository.

import (
	"context"
	"sort"
	"testing"

	"github.com/bmeg/grip/gdbi"
	_ "github.com/bmeg/grip/kvi/badgerdb"
)

func scan(gi gdbi.GraphInterface, label string) []string {
	var out []string
	kg := gi.(*KVInterfaceGDB)
	for id := range kg.VertexLabelScan(context.Background(), label) {
		out = append(out, id)
	}
	sort.Strings(out)
	return out
}

// replacing a vertex with a different label leaves the old label's index entry
func TestDemoRelabelStaleEntry(t *testing.T) {
	gdb, err := NewKVGraphDB("badger", t.TempDir())
	if err != nil {
		t.Fatal(err)
	}
	defer gdb.Close()
	gdb.AddGraph("g")
	gi, _ := gdb.Graph("g")
	gi.AddVertex([]*gdbi.Vertex{{ID: "v1", Label: "A", Data: map[string]interface{}{}}})
	gi.AddVertex([]*gdbi.Vertex{{ID: "v1", Label: "B", Data: map[string]interface{}{}}})
	if got := scan(gi, "A"); len(got) != 0 {
		t.Errorf("after relabel A->B, label scan A = %v, want []", got)
	}
	if got := scan(gi, "B"); len(got) != 1 {
		t.Errorf("after relabel A->B, label scan B = %v, want [v1]", got)
	}
}

// index documents are keyed by element id only: two graphs holding the same id share one
func TestDemoCrossGraphDocID(t *testing.T) {
	gdb, err := NewKVGraphDB("badger", t.TempDir())
	if err != nil {
		t.Fatal(err)
	}
	defer gdb.Close()
	gdb.AddGraph("g1")
	gdb.AddGraph("g2")
	g1, _ := gdb.Graph("g1")
	g2, _ := gdb.Graph("g2")
	g1.AddVertex([]*gdbi.Vertex{{ID: "v1", Label: "A", Data: map[string]interface{}{}}})
	g2.AddVertex([]*gdbi.Vertex{{ID: "v1", Label: "B", Data: map[string]interface{}{}}})
	if err := g1.DelVertex("v1"); err != nil {
		t.Fatal(err)
	}
	if got := scan(g2, "B"); len(got) != 1 {
		t.Errorf("after deleting v1 from g1, g2 label scan B = %v, want [v1]", got)
	}
	if got := scan(g1, "A"); len(got) != 0 {
		t.Errorf("after deleting v1 from g1, g1 label scan A = %v, want []", got)
	}
}

// deleting a vertex does not remove its label-index entry: label scans and label
// listings keep reporting it
func TestDemoDelVertexLeavesIndex(t *testing.T) {
	gdb, err := NewKVGraphDB("badger", t.TempDir())
	if err != nil {
		t.Fatal(err)
	}
	defer gdb.Close()
	gdb.AddGraph("g")
	gi, _ := gdb.Graph("g")
	gi.AddVertex([]*gdbi.Vertex{{ID: "v1", Label: "A", Data: map[string]interface{}{}}})
	if err := gi.DelVertex("v1"); err != nil {
		t.Fatal(err)
	}
	if v := gi.GetVertex("v1", true); v != nil {
		t.Fatalf("vertex still stored")
	}
	if got := scan(gi, "A"); len(got) != 0 {
		t.Errorf("after DelVertex(v1), label scan A = %v, want []", got)
	}
	if got, _ := gi.ListVertexLabels(); len(got) != 0 {
		t.Errorf("after DelVertex(v1), vertex labels = %v, want []", got)
	}
}

func TestDemoDelEdgeLeavesIndex(t *testing.T) {
	gdb, err := NewKVGraphDB("badger", t.TempDir())
	if err != nil {
		t.Fatal(err)
	}
	defer gdb.Close()
	gdb.AddGraph("g")
	gi, _ := gdb.Graph("g")
	gi.AddVertex([]*gdbi.Vertex{{ID: "a", Label: "A", Data: map[string]interface{}{}}, {ID: "b", Label: "A", Data: map[string]interface{}{}}})
	gi.AddEdge([]*gdbi.Edge{{ID: "e1", Label: "knows", From: "a", To: "b", Data: map[string]interface{}{}}})
	if err := gi.DelEdge("e1"); err != nil {
		t.Fatal(err)
	}
	if got, _ := gi.ListEdgeLabels(); len(got) != 0 {
		t.Errorf("after DelEdge(e1), edge labels = %v, want []", got)
	}
}
