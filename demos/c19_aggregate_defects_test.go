package test

// Demonstrations against the real engine of defects in aggregate.Process (C19).

import (
	"context"
	"fmt"
	"path/filepath"
	"testing"

	"github.com/bmeg/grip/engine/pipeline"
	"github.com/bmeg/grip/gdbi"
	"github.com/bmeg/grip/gripql"
	"github.com/bmeg/grip/kvgraph"
	_ "github.com/bmeg/grip/kvi/badgerdb"
)

func demoGraph(t *testing.T, rows []map[string]interface{}) (gdbi.GraphInterface, string, func()) {
	dir := t.TempDir()
	g, err := kvgraph.NewKVGraphDB("badger", filepath.Join(dir, "db"))
	if err != nil {
		t.Fatal(err)
	}
	if err := g.AddGraph("ag"); err != nil {
		t.Fatal(err)
	}
	gi, err := g.Graph("ag")
	if err != nil {
		t.Fatal(err)
	}
	for n, d := range rows {
		e := &gdbi.Vertex{ID: fmt.Sprintf("v%d", n), Label: "N", Data: d, Loaded: true}
		if err := gi.AddVertex([]*gdbi.Vertex{e}); err != nil {
			t.Fatal(err)
		}
	}
	return gi, filepath.Join(dir, "work"), func() { g.Close() }
}

func runAgg(t *testing.T, gi gdbi.GraphInterface, work string, aggs []*gripql.Aggregate) []*gripql.NamedAggregationResult {
	q := gripql.NewQuery().V().Aggregate(aggs)
	p, err := gi.Compiler().Compile(q.Statements, nil)
	if err != nil {
		t.Fatalf("compile: %v", err)
	}
	var out []*gripql.NamedAggregationResult
	for row := range pipeline.Run(context.Background(), p, work) {
		if a := row.GetAggregations(); a != nil {
			out = append(out, a)
		}
	}
	return out
}

// term buckets are limited to `size` buckets when a size is given
func TestDemoTermSizeIgnored(t *testing.T) {
	gi, work, done := demoGraph(t, []map[string]interface{}{{"c": "a"}, {"c": "a"}, {"c": "a"}, {"c": "b"}, {"c": "b"}, {"c": "z"}})
	defer done()
	res := runAgg(t, gi, work, []*gripql.Aggregate{{Name: "t", Aggregation: &gripql.Aggregate_Term{Term: &gripql.TermAggregation{Field: "c", Size: 2}}}})
	if len(res) != 2 {
		t.Errorf("term aggregation with size 2 returned %d buckets, want the 2 most frequent", len(res))
	}
	for _, r := range res {
		if r.Key.GetStringValue() == "z" {
			t.Errorf("least frequent term z (count 1) is among the size-2 result")
		}
	}
}

// a histogram over no numeric value at all
func TestDemoHistogramNoValues(t *testing.T) {
	gi, work, done := demoGraph(t, []map[string]interface{}{{"c": "a"}})
	defer done()
	res := runAgg(t, gi, work, []*gripql.Aggregate{{Name: "h", Aggregation: &gripql.Aggregate_Histogram{Histogram: &gripql.HistogramAggregation{Field: "x", Interval: 5}}}})
	if len(res) != 0 {
		t.Errorf("histogram over no values returned %v", res)
	}
}

// two aggregations with the same name
func TestDemoDuplicateAggregationName(t *testing.T) {
	gi, work, done := demoGraph(t, []map[string]interface{}{{"c": "a"}, {"c": "b"}})
	defer done()
	q := gripql.NewQuery().V().Aggregate([]*gripql.Aggregate{
		{Name: "n", Aggregation: &gripql.Aggregate_Count{Count: &gripql.CountAggregation{}}},
		{Name: "n", Aggregation: &gripql.Aggregate_Count{Count: &gripql.CountAggregation{}}},
	})
	p, err := gi.Compiler().Compile(q.Statements, nil)
	if err != nil {
		return // rejected before any row is produced: fine
	}
	for range pipeline.Run(context.Background(), p, work) {
	}
}

// a non-numeric value is not a numeric value of the histogram
func TestDemoHistogramCountsNonNumbers(t *testing.T) {
	gi, work, done := demoGraph(t, []map[string]interface{}{{"x": 12.0}, {"x": "abc"}})
	defer done()
	res := runAgg(t, gi, work, []*gripql.Aggregate{{Name: "h", Aggregation: &gripql.Aggregate_Histogram{Histogram: &gripql.HistogramAggregation{Field: "x", Interval: 5}}}})
	var sum float64
	for _, r := range res {
		sum += r.Value
	}
	if sum != 1 {
		t.Errorf("histogram buckets sum to %v, want 1 (one numeric value); buckets %v", sum, res)
	}
}
