package kvi_test

// Demonstration against the real drivers: forward and reverse seeks must behave like a
// sorted map (Seek(k): smallest key >= k, SeekReverse(k): largest key <= k, invalid when
// there is none), whatever position the iterator had before.

import (
	"path/filepath"
	"testing"

	"github.com/bmeg/grip/kvi"
	_ "github.com/bmeg/grip/kvi/badgerdb"
	_ "github.com/bmeg/grip/kvi/boltdb"
	_ "github.com/bmeg/grip/kvi/leveldb"
	_ "github.com/bmeg/grip/kvi/pebbledb"
)

func TestDemoSeekPastEnd(t *testing.T) {
	for _, name := range []string{"badger", "bolt", "level", "pebble"} {
		kv, err := kvi.NewKVInterface(name, filepath.Join(t.TempDir(), name), nil)
		if err != nil {
			t.Logf("%s: %v", name, err)
			continue
		}
		kv.Set([]byte("b"), []byte("1"))
		kv.Set([]byte("d"), []byte("2"))
		kv.View(func(it kvi.KVIterator) error {
			check := func(what string, wantValid bool, wantKey string) {
				if it.Valid() != wantValid {
					t.Errorf("%s: %s: valid = %v, want %v (key %q)", name, what, it.Valid(), wantValid, it.Key())
				} else if wantValid && string(it.Key()) != wantKey {
					t.Errorf("%s: %s: key = %q, want %q", name, what, it.Key(), wantKey)
				}
			}
			it.Seek([]byte("b"))
			check("Seek(b)", true, "b")
			it.Seek([]byte("e"))
			check("Seek(e) after Seek(b)", false, "")
			it.Seek([]byte("c"))
			check("Seek(c)", true, "d")
			it.SeekReverse([]byte("a"))
			check("SeekReverse(a) after Seek(c)", false, "")
			it.SeekReverse([]byte("c"))
			check("SeekReverse(c)", true, "b")
			it.SeekReverse([]byte("z"))
			check("SeekReverse(z)", true, "d")
			it.Next()
			check("SeekReverse(z); Next", true, "b")
			it.Next()
			check("SeekReverse(z); Next; Next", false, "")
			return nil
		})
		kv.Close()
	}
}
