package test

// Demonstration against the real engine: the compiler skips loading element data for
// steps whose data it believes unused; hasKey and mark references are not part of that
// analysis.

import (
	"context"
	"path/filepath"
	"testing"

	"github.com/bmeg/grip/engine/pipeline"
	"github.com/bmeg/grip/gdbi"
	"github.com/bmeg/grip/gripql"
	"github.com/bmeg/grip/kvgraph"
	_ "github.com/bmeg/grip/kvi/badgerdb"
)

func TestDemoLoadElision(t *testing.T) {
	dir := t.TempDir()
	g, err := kvgraph.NewKVGraphDB("badger", filepath.Join(dir, "db"))
	if err != nil {
		t.Fatal(err)
	}
	defer g.Close()
	g.AddGraph("lg")
	gi, _ := g.Graph("lg")
	gi.AddVertex([]*gdbi.Vertex{
		{ID: "a", Label: "P", Data: map[string]interface{}{"name": "x"}, Loaded: true},
		{ID: "b", Label: "P", Data: map[string]interface{}{"name": "y"}, Loaded: true},
	})
	gi.AddEdge([]*gdbi.Edge{
		{ID: "e1", Label: "knows", From: "a", To: "b", Data: map[string]interface{}{"w": 1.0}, Loaded: true},
		{ID: "e2", Label: "knows", From: "b", To: "a", Data: map[string]interface{}{"w": 1.0}, Loaded: true},
	})
	work := filepath.Join(dir, "work")
	rows := countRowsDup(t, gi, work, gripql.NewQuery().V().OutE().HasKey("w"))
	cnt := countRowsDup(t, gi, work, gripql.NewQuery().V().OutE().HasKey("w").Limit(100))
	if rows != 2 || cnt != 2 {
		t.Errorf("V().outE().hasKey(w): %d rows; with a following limit: %d rows; want 2 and 2", rows, cnt)
	}
	// with count() as the last step nothing is "on last": the edge data is never loaded
	qc := gripql.NewQuery().V().OutE().HasKey("w").Count()
	pc, err := gi.Compiler().Compile(qc.Statements, nil)
	if err != nil {
		t.Fatal(err)
	}
	for row := range pipeline.Run(context.Background(), pc, work) {
		if c := row.GetCount(); c != 2 {
			t.Errorf("V().outE().hasKey(w).count() = %d, want 2", c)
		}
	}
	n := countRowsDup(t, gi, work, gripql.NewQuery().V().OutE().As("x").Out().Has(gripql.Eq("$x.w", 1.0)))
	if n != 2 {
		t.Errorf("V().outE().as(x).out().has(eq($x.w, 1)) returned %d rows, want 2", n)
	}
}
