#!/bin/sh
# confirm_seed.sh <seeded dir>: on a scratch copy of /repo, check that the demonstration
# passes without the change, fails with it, and that the touched packages still build
# and the repository tests still pass with it. Writes <dir>/confirm.txt.
export GOFLAGS=-mod=mod GOPROXY=off GOSUMDB=off GOTOOLCHAIN=local
d=$1
demo_dir=$(python3 -c "import json;print(json.load(open('$d/meta.json')).get('demo_dir','.'))")
scratch=$(mktemp -d /tmp/seedconfirm-XXXXXX)
rsync -a --exclude .git /repo/ "$scratch/repo/"
find "$scratch/repo" -name zz_contracts_verif.go -delete
cp "$d/demo_test.go" "$scratch/repo/$demo_dir/zz_seed_demo_test.go"
out="$d/confirm.txt"; : > "$out"
cd "$scratch/repo"
echo "== demo WITHOUT change (expect ok)" >> "$out"
go test -vet=off -count=1 -timeout 600s "./$demo_dir/" -run . 2>&1 | tail -3 >> "$out"; 
patch -s -p1 < "$d/patch.diff" || echo "PATCH FAILED" >> "$out"
echo "== build with change" >> "$out"
dirs=$(sed -n 's|^+++ b/\(.*\)/[^/]*$|./\1|p' "$d/patch.diff" | sort -u | tr '\n' ' ')
go build $dirs >> "$out" 2>&1 && echo "build ok" >> "$out"
echo "== demo WITH change (expect FAIL)" >> "$out"
go test -vet=off -count=1 -timeout 600s "./$demo_dir/" -run . 2>&1 | tail -5 >> "$out"
rm -f "$demo_dir/zz_seed_demo_test.go"
echo "== repository tests WITH change (4 known failures do not count)" >> "$out"
go test -vet=off -count=1 -timeout 900s ./... 2>&1 | grep -v "no test files" | grep "^ok\|^FAIL\|^--- FAIL" >> "$out"
cd /; rm -rf "$scratch"
echo done >> "$out"
