#!/bin/sh
# Build the verifier from files on disk only (offline) and warm the build cache.
set -e
export GOFLAGS=-mod=mod GOPROXY=off GOSUMDB=off GOTOOLCHAIN=local
cd /verif/gvc
mkdir -p /verif/bin /verif/evidence /verif/replays
go build -o /verif/bin/gvc .
(cd /verif/axioms && go build -o /verif/bin/validate_axioms .)
cd /repo
go build -tags verif ./... >/dev/null 2>&1 || true
echo "setup ok"
