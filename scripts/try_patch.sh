#!/bin/sh
# try_patch.sh <patch.diff> <property...>: apply a patch to a scratch copy of /repo and run the checks on it
export GOFLAGS=-mod=mod GOPROXY=off GOSUMDB=off GOTOOLCHAIN=local
patch=$1; shift
scratch=$(mktemp -d /tmp/gvc-try-XXXXXX)
rsync -a --exclude .git /repo/ "$scratch/repo/"; mkdir -p "$scratch/out"
(cd "$scratch/repo" && patch -s -p1 < "$patch") || { echo "patch does not apply"; rm -rf "$scratch"; exit 2; }
rc=0
for p in "$@"; do
  GVC_OUT="$scratch/out" /verif/bin/gvc check --property "$p" --tier quick --repo "$scratch/repo" 2>&1 | grep "^gvc: obligation\|^VIOLATION\|^gvc: property\|^KNOWN" | cut -c1-400
done
rm -rf "$scratch"
