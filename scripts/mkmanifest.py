#!/usr/bin/env python3
"""Regenerates /verif/MANIFEST.json from the table below (kept in one place so the
manifest stays valid while properties move from not_applicable to claimed)."""
import json, subprocess

HOOK_COMMITS = subprocess.run(
    ["git", "-C", "/repo", "log", "--format=%h", "--grep=^verif"],
    capture_output=True, text=True).stdout.split()

TRUST = ("Trusted base: go/packages+go/ssa (x/tools v0.29.0) SSA construction, the gvc VC generator, "
         "the SMT solvers (z3 4.8.12, z3 5.1.0, cvc5 1.0.x); integers mathematical unless the contract enables "
         "overflow obligations; byte strings abstract (no aliasing); every extern/iface/trusted contract and "
         "definitional axiom used is listed by name in the evidence file under trusted_base.")

CLAIMED = {
    "C08": dict(
        level="proof",
        text="MatchesCondition is proved, for every traveler value and every condition argument (all JSON kinds, all IEEE-754 "
             "doubles), to return exactly the documented comparison for each of the 12 operators, never to panic, and to treat "
             "non-numbers (incl. booleans) as non-matching in ordering tests; MatchesHasExpression is proved to be and=forall, "
             "or=exists, not=negation over its operands. Obligations are generated from the current SSA of /repo on every run.",
        ref="§5 C08",
        note=TRUST + " Assumed: cast.ToFloat64E/ToSliceE and structpb.Value.AsInterface contracts (written from their sources), "
             "reflect.DeepEqual named deq, jsonpath.TravelerPathLookup named pathLookup (JSONPath library not verified).",
        technique="contract-based deductive verification: WP/VC generation over go/ssa + SMT (z3/cvc5)"),
    "C16": dict(
        level="proof",
        text="For every key family of the embedded graph store the real builder and parser functions are proved inverse on "
             "NUL-free components, injective, pairwise disjoint between families, and every list/element prefix is proved to "
             "capture exactly the keys of one graph / element (code lemmas executed from the functions' SSA); the validators "
             "(validate, ValidateGraphName, ValidateFieldName, Vertex.Validate, Edge.Validate) are proved to accept only "
             "NUL-free non-blank identifiers, which is the precondition of those lemmas. Holds for all strings.",
        ref="§5 C16",
        note=TRUST + " Assumed: models of bytes.Join/Split/HasPrefix and strings.IndexByte/ContainsAny (axioms in spec/keys.smt2, "
             "validated by a bounded differential test); structpb property values (nesting, numeric extremes) are library behaviour "
             "and not decided; the label-vs-'label' collision in the index document is residue.",
        technique="contract-based deductive verification: code lemmas + function contracts, VCs over go/ssa, SMT (z3/cvc5)"),
    "C01": dict(
        level="other",
        text="Partial: the stream processes limit, skip, range, count, has, hasLabel, hasId and hasKey are proved (for every input history, "
             "unbounded length) to forward signals in place and exactly the travelers their documented meaning keeps, in order, to close "
             "their output once, and for limit/skip/range to emit the closed-form number of rows (min(N,n), max(0,N-n), range arithmetic); "
             "traveler copy-on-step (AddCurrent, AddMark) is proved pointwise (marks, path, current, signal). Lookup/adjacency steps, "
             "as(), select(marks) and path() are proved element-wise maps, unwind is proved to emit n rows for a list of n > 0 elements and one row otherwise; distinct() is proved to forward signals in place and, of the other rows, exactly those in which every listed field exists, whose key (the NUL-joined %#v renderings of the listed fields' values) is not empty and was not the key of an earlier such row, in order, the temporary store holding exactly the keys seen (assumed: the temporary store starts empty and accepts writes; the renderings separate distinct values); render/fields and the pipeline wiring are not under contract. The lookup steps V(), V(ids), E(), E(ids) are proved to forward signals in place and to emit, per input traveler and in order, one traveler per listed element resp. per requested id the graph has, carrying that id (the graph's answers are named by an assumed GraphInterface contract); both halves of out/in (from vertex or edge), inE and outE are proved to send one request per traveler (the current id resp. the edge endpoint; none for signals and null rows) and to emit one output per answer of the graph, the requesting traveler moved to the returned element. both()/bothE() is proved to forward signals at once, to hand every other traveler in order to the in- and the out-direction step of the right kind, and to emit everything the first and then everything the second produced. The index lookup step introduced by the start rewrite is proved to send one request per input traveler, label and scanned id and to emit one output per answer, moved to the found vertex's id. Which answers a driver gives is not decided. Typing: StatementProcessor is proved against the "
             "table tnext and DefaultCompiler.Compile (no optimizers, no options) to return the fold of that table over the statements or an error.",
        ref="§5 C01",
        note=TRUST + " Trusted composition principle (Kahn determinacy, DESIGN §4.3): a network of such sequential processes over FIFO channels "
             "computes the composition of their history functions; channel sends never block in the model; stream lengths < 2^32 (2^31 for range).",
        technique="contract-based deductive verification: history contracts + loop invariants on goroutine bodies, VCs over go/ssa, SMT"),
    "C03": dict(
        level="other",
        text="Partial: insertVertex, insertEdge, AddVertex, AddEdge, DelEdge, AddGraph, DeleteGraph (and the index registry functions they call) are "
             "proved against an abstract key-value store: each postcondition determines every stored key (the keys written/removed and the frame), "
             "invalid elements change nothing, DelEdge removes exactly the edge key and its two adjacency entries, DeleteGraph removes every key of the "
             "graph's five families and none of another graph, and the timestamp is touched exactly for the mutated graph; DelVertex and BulkAdd likewise "
             "(with the recorded findings); the point reads GetVertex/GetEdge return the element stored under the id's key and nil when it is absent; the producers of GetVertexList/GetEdgeList emit exactly one element per "
             "stored key under the graph's prefix, carrying that key's components, in increasing key order, and write nothing (context not cancelled, keys "
             "well formed); the batch and adjacency readers (GetVertexChannel, GetOutChannel, GetInChannel, GetOutEdgeChannel, GetInEdgeChannel) answer requests in order, "
             "pass signals on, build every answer from one stored index entry under the requested vertex's prefix with an admitted label (nothing invented), give null answers only with emitNull, "
             "give exactly one answer per stored entry when no label filter applies, and write nothing. Label scans through the secondary index, completeness under a label filter and the composition over histories are not decided.",
        ref="§5 C03",
        note=TRUST + " Assumed: the kvi interface contract (spec/kv.gvc: one ordered byte-string map; proved per driver under C10), AddDocTx writes only "
             "index keys, proto.Marshal/Unmarshal inverse, byte-order and prefix axioms of spec/kv.smt2 and spec/keys.smt2.",
        technique="contract-based deductive verification: abstract-store postconditions with frames, VCs over go/ssa, SMT"),
    "C04": dict(
        level="other",
        text="Partial: (restart) NewIndex is proved to rebuild the indexed-field registry from the persisted field keys (registry == scan of "
             "the store, via the proved scan contract of ListFields), so an index opened on an existing store behaves like the one that wrote it; "
             "(crash) every mutator under contract is proved to issue at most one top-level key-value write (insertVertex/insertEdge none, "
             "AddVertex/AddEdge/DelEdge exactly one transaction), which with atomic top-level writes gives all-or-nothing mutations; DeleteGraph's "
             "multi-write sequence is a recorded known finding. NewKVGraph/ListGraphs and DelVertex are not yet under contract.",
        ref="§5 C04",
        note=TRUST + " Assumed: each top-level write of the store is atomic and durable (as the property stipulates); kvi interface contract (spec/kv.gvc).",
        technique="contract-based deductive verification: representation invariant + ghost write counter, VCs over go/ssa, SMT"),
    "C05": dict(
        level="proof",
        text="Mediation is proved as the precondition of the handler parameter of both gRPC interceptors: for every exposed method "
             "(table extracted from the generated service descriptors on every run), every request, user and policy, the handler is "
             "called only after Authenticate.Validate succeeded and Access.Enforce succeeded for that user, the graph the request names "
             "and the method's operation class, otherwise an Unauthenticated/PermissionDenied status is returned and the handler is not "
             "called; with permissive collaborators every exposed unary method reaches its handler; BulkWriteFilter.RecvMsg delivers only "
             "permitted elements; CasbinAccess.Enforce decides exactly as casbin does. Five server-streaming methods are recorded known findings.",
        ref="§5 C05",
        note=TRUST + " Assumed: casbin policy evaluation, grpc interceptor chaining and the IsServerStream/IsClientStream flags, "
             "metadata extraction; the direct-client shims and Serve wiring (G1, W1) are residue not yet under contract.",
        technique="contract-based deductive verification: handler-parameter preconditions, VCs over go/ssa, SMT (z3/cvc5)"),
    "C06": dict(
        level="other",
        text="Partial: panic-freedom (nil dereference, unchecked type assertion, index/slice bounds, nil-map write, interface comparison of "
             "uncomparable values, close/send on closed channel) is proved for the index-start optimizer, the condition matcher, traveler "
             "copy-on-step operations and result conversion under the wire input model, all 30 server handlers, and the step processes has/hasLabel/"
             "hasId/hasKey/fields/render/path/unwind/distinct/as/select/set/increment, the lookup steps V/E, both halves of out/in/inE/outE, the "
             "histogram aggregation arm and DeepCopy. Not covered: jsonpath internals (trusted frames), other packages.",
        ref="§5 C06",
        note=TRUST + " Input model wire(x) (payload of a populated oneof wrapper is non-nil) is assumed as axioms in the contracts; panics inside "
             "third-party libraries, out-of-memory and deadlock are not decided.",
        technique="contract-based deductive verification: auto-generated safety obligations at every panicking instruction, SMT (z3/cvc5)"),
    "C11": dict(
        level="other",
        text="Partial: JobMatch is proved to accept exactly the stored jobs of two or more steps whose checksums are a prefix of "
             "the query's (loop invariant, all lengths); the remaining clauses of C11 (JSON round trip of stored rows, restart, "
             "resume equivalence) are residue not decided by this check.",
        ref="§5 C11",
        note=TRUST + " hashstructure.Hash assumed collision-free; file system and encoding/json not modelled.",
        technique="contract-based deductive verification: WP/VC generation over go/ssa + SMT (z3/cvc5)"),
    "C09": dict(
        level="other",
        text="Partial: proved for all inputs - term encoding (GetTermBytes/GetBytesTerm inverse on strings and non-NaN numbers), "
             "entry/term/field/doc key builders and parsers inverse and scan prefixes exact (a term's prefix selects only that "
             "term's entries), AddDocTx (writes exactly-recorded entry keys, invalidates counts, records the entry list, touches "
             "only index keys), termGetCount (cached or exact recount = number of stored keys under the term prefix), RemoveDoc "
             "(deletes the recorded entries and the document key in one transaction, counts before deleting). One known finding "
             "(replacement leaves old entries). The producer of GetTermMatch is proved, for string terms, to send exactly the document parts of "
             "the entries stored under the term's prefix (one per entry, in key order, none twice, capped by the maximum) and to write nothing. "
             "Not decided here: the sign-aware numeric scans (min/max/range/FieldNumbers), the other streaming query methods' output "
             "histories and the cross-operation history invariant that composes these contracts.",
        ref="§5 C09",
        note=TRUST + " Assumed: kvi interface contract (spec/kv.gvc), bytes.Join/Split/SplitN/HasPrefix and slicing axioms (spec/keys.smt2, "
             "spec/idxkeys.smt2), finite-set counting axioms (spec/idxcount.smt2), Float64bits/BigEndian/Uvarint models (spec/ieee.smt2), "
             "proto round trip of kvindex.Doc; terms, fields and ids are NUL-free.",
        technique="contract-based deductive verification: WP/VC generation over go/ssa + SMT (z3/cvc5)"),
    "C20": dict(
        level="other",
        text="Partial: at every call of the PostgreSQL driver (psql) and at the client-data call sites of the existing-SQL driver that "
             "hands statement text to database/sql or sqlx, the text is proved to be built only from program constants and "
             "identifier-safe table names (predicate sqlfixed, closed under concatenation), for all ids, labels and graph names; "
             "client values travel as bound parameters. Sites where this does not hold are listed as known findings (batch IN-lists "
             "in both drivers, identifier contexts of psql AddGraph, all client-data sites of existing-sql). Not decided: quoting "
             "inside the database server, and the existing-sql sites that only use configured schema names.",
        ref="§5 C20",
        note=TRUST + " Assumed: fmt.Sprintf with a %s-only constant format = concatenation; table names stored in the psql graphs table "
             "are identifier-safe (representation invariant, extern getGraphInfo@psql); database/sql and sqlx calls other than the "
             "Scan family do not touch modelled state.",
        technique="contract-based deductive verification: call-site obligations generated over go/ssa + SMT (z3/cvc5)"),
    "C18": dict(
        level="other",
        text="Partial: (1) the server's BulkAdd handler is proved, for every sequence of received elements (known, unknown and schema "
             "graphs, invalid elements, transport errors), never to send on or close a closed element stream and never to dereference "
             "nil - an unroutable element is counted and skipped and leaves the current graph's stream open; (2) kvgraph BulkAdd is "
             "proved to apply insertVertex/insertEdge - the per-element operations AddVertex/AddEdge use - to every streamed element "
             "in one bulk write, consuming the whole stream, changing no non-index key other than the keys of streamed elements of its "
             "own graph and touching no other graph's timestamp; (3) per-element authorisation of the stream is BulkWriteFilter.RecvMsg "
             "(C05). Not decided: the reported insert/error counts, util.StreamBatch (used by the SQL/Mongo drivers, goroutine fan-out) "
             "and the state equality with one-by-one loading beyond the shared per-element contracts.",
        ref="§5 C18",
        note=TRUST + " Assumed: gRPC stream Recv/SendAndClose and gdbi.GraphDB.Graph contracts (server/zz_contracts_verif.go), kvi interface "
             "contract; goroutines spawned by the handler are not executed by the model (they only read the stream).",
        technique="contract-based deductive verification: WP/VC generation over go/ssa + SMT (z3/cvc5)"),
    "C19": dict(
        level="other",
        text="Partial: the dispatcher (signals forwarded, every other row handed in order to every aggregation, channels closed at the end) and the aggregation arms are verified as sequential processes. Proved "
             "for every input history: count emits exactly one row whose value is the number of rows received; histogram never "
             "panics (also with no numeric value or interval 0), collects exactly the values that convert to numbers, and the tally "
             "sent for a bucket [b, b+i) is 1.0 added once per collected value v with b <= v < b+i; term consumes its whole input and "
             "emits at most `size` buckets when a size is given; the compiler rejects an aggregate step with two equal names (so the "
             "arms never share a channel); the type arm consumes its whole input and every row it emits carries a type name that occurs "
             "in the input with exactly the number of input rows of that type. The field arm consumes its whole input and every row it emits carries a key that occurs in the aggregated object of some input row "
             "with exactly the number of input rows whose object has that key; the first histogram bucket starts at floor(min/i)*i. Not decided: percentile (t-digest library), "
             "that every occurring key gets a row, ordering by frequency "
             "(library sort), that later buckets stay on the grid under repeated float addition, and independence under real concurrency.",
        ref="§5 C19",
        note=TRUST + " Assumed: cast.ToFloat64E and jsonpath.TravelerPathLookup contracts, sort.* not modelled, each arm's sends on the shared "
             "output are counted in isolation (sequential process model).",
        technique="contract-based deductive verification: process contracts over channel histories, WP/VC generation over go/ssa + SMT"),
    "C02": dict(
        level="other",
        text="Partial: (1) the index-start rewrite is proved to use only a filter of the leading run of filters and to hand duplicate-free id and label lists to the lookups it introduces "
             "(dedupStringSlice proved duplicate-free for every input), so an element is not returned once per repetition of its id or "
             "label; it is also proved panic-free (C06). (2) The load-elision analysis PipelineStepOutputs is proved, for every "
             "statement sequence, to mark the step of every has() statement as loaded; the same clause for hasKey fails and is a "
             "known finding (with fields/render/unwind/path/aggregate and mark references). Not decided: that the rewritten "
             "pipeline returns the same rows as the literal one (needs the step semantics of C01 composed), count() equality, "
             "and the equivalence of filter spellings beyond the shared extraction function.",
        ref="§5 C02",
        note=TRUST + " Assumed: protoutil and structpb accessors are pure; PipelineSteps/PipelineAsSteps only through their length / non-nil contracts.",
        technique="contract-based deductive verification: WP/VC generation over go/ssa + SMT (z3/cvc5)"),
    "C14": dict(
        level="other",
        text="Partial (typing half): the core compiler (StatementProcessor and DefaultCompiler.Compile) and the MongoDB compiler (Compiler.Compile, native path) are "
             "both proved against one typing table tnext(statement, type) covering 25 statement kinds (V, E, in/out/both and their "
             "Null and edge variants, has/hasLabel/hasKey/hasId, distinct, fields, limit/skip/range, count, render, path, aggregate): "
             "for every statement sequence of covered kinds the MongoDB compiler's result type is the fold of the table, i.e. the type "
             "the core compiler assigns, and a statement the table rejects for the current type is rejected by both. Not decided: "
             "as/select and mark types, and the whole filter-meaning half (it needs a model of MongoDB's query semantics).",
        ref="§5 C14",
        note=TRUST + " Assumed: convertHasExpression is pure (trusted); bson construction does not touch the modelled state; statements "
             "handed over to the core engine (jump/set/increment, pipeline extensions) are outside the MongoDB contract.",
        technique="contract-based deductive verification: both functions proved against one shared specification table, WP/VC + SMT"),
    "C10": dict(
        level="other",
        text="Partial: the iterator wrappers of the badger and pebble drivers (Seek, SeekReverse, Next, Valid, Key) are proved, for "
             "every store content and every earlier iterator position, to behave as the ordered-map iterator of the kvi contract "
             "(smallest key at or after / largest key at or before the target, invalid when there is none, neighbour on Next), "
             "given assumed contracts of the libraries' own cursors. Not decided: the bolt and leveldb wrappers (they test byte "
             "slices against nil, which the model cannot tell from empty; their seek defects were found by inspection, shown by a "
             "differential demonstration and repaired), point reads/writes of bolt, leveldb and (writes) pebble, the Update/BulkWrite/View wrappers that hand out the handles, DeletePrefix of "
             "bolt/leveldb, and the equality of whole histories across drivers. The block-wise DeletePrefix of badger and pebble and pebble's HasKey/Get are proved against the "
             "interface contract (on success no key with the prefix is left and every other key and value is unchanged; on failure nothing "
             "outside the prefix changed); that it is one atomic write is not (it is one transaction per block of 9999 keys). The badger driver's point operations (Get, HasKey, Set, Delete of the store and of its transaction handle, Set of its bulk-write handle) are proved against the interface contract over assumed contracts of badger's View/Update/Txn.Get/Set/Delete/Item.Value/WriteBatch.Set. Known finding: writes inside a pebble Update are applied at once (the driver has no transactions).",
        ref="§5 C10",
        note=TRUST + " Assumed: badger v2 and pebble iterator contracts (spec/kvlib.gvc, written from their documentation), the "
             "direction of the cursor badgerIterator.init creates, copyBytes; nil and empty byte slices identified, no stored key empty.",
        technique="contract-based deductive verification: driver wrappers proved against the interface contract over assumed library contracts"),
    "C15": dict(
        level="other",
        text="Partial: the edge-id scheme of a mapped graph - GenID builds <from prefix><row id>-<label>-<to prefix><row id> and "
             "ParseEdge is proved to return exactly the three parts back for all dash-free parts; that ParseEdge accepts every id GenID "
             "can build is a known finding (row ids containing '-'). Write calls are refused: AddVertex, AddEdge, BulkAdd, DelVertex, DelEdge, "
             "AddVertexIndex and DeleteVertexIndex of the mapped graph are proved to return an error, write no state and call no driver. "
             "Not decided: everything that involves the external table servers (one vertex per row, one edge per link row, equality of "
             "traversals with the materialised graph): the gRPC table clients are outside the model.",
        ref="§5 C15",
        note=TRUST + " Assumed: strings.Split on '-' of a three-part dash-free concatenation (spec/dash.smt2, validated by validate_axioms).",
        technique="contract-based deductive verification: WP/VC generation over go/ssa + SMT (z3/cvc5)"),
}

NOT_APPLICABLE = {
    "C07": "liveness / progress under bounded buffers and cancellation are statements over schedules and fairness; sequential function contracts (sends never block in the model) cannot express or decide them",
    "C12": "exactness and termination of the mark/jump signal protocol quantify over interleavings of five goroutines; outside what per-function contracts can state",
    "C13": "the property is about worker pools, a multiplexer and batchers keeping order and multiplicity 'under any worker latency or scheduling': it quantifies over interleavings of goroutines; a sequential contract of one goroutine body cannot state it, and the engine does not execute spawned goroutines",
    "C17": "data-race freedom, absence of termination and linearisability of acknowledged edits are properties of concurrent executions; contracts over one sequential call cannot express them (the crash found in the BulkAdd handler is covered under C18/C06)",
}

PENDING = "contracts for this property are not written yet in this revision (see DESIGN.md §5 for the plan); not claimed until its obligations discharge"

ALL = ["C%02d" % i for i in range(1, 21)]

checks = []
for pid in ALL:
    if pid in CLAIMED:
        c = CLAIMED[pid]
        checks.append({
            "property_id": pid,
            "quick_cmd": f"/verif/bin/gvc check --property {pid} --tier quick --level {c['level']}",
            "thorough_cmd": f"/verif/bin/gvc check --property {pid} --tier thorough --level {c['level']}",
            "evidence_file": f"/verif/evidence/{pid}.json",
            "replay_cmd_template": "/verif/bin/gvc replay {path}",
            "engine": "gvc",
            "level_claimed": {"category": c["level"], "text": c["text"], "design_ref": c["ref"]},
            "level_note": c["note"],
            "technique": c["technique"],
        })

na = []
for pid in ALL:
    if pid in CLAIMED:
        continue
    na.append({"property_id": pid, "reason": NOT_APPLICABLE.get(pid, PENDING)})

manifest = {
    "version": 1,
    "setup_cmd": "/verif/scripts/setup.sh",
    "hooks": {
        "guard": "verif",
        "enable": "go build -tags verif (the only hooks are comment-only contract files <pkg>/zz_contracts_verif.go)",
        "baseline_off_cmd": "/verif/scripts/baseline_off.sh",
        "source_commits": HOOK_COMMITS,
        "add_only": True,
    },
    "engines": [{
        "name": "gvc", "path": "/verif/gvc",
        "serves_properties": sorted(CLAIMED),
        "kind_free_text": "verification-condition generator for Go over go/ssa with //@ contracts (requires/ensures/loop invariants/axioms), discharged by z3 4.8.12, z3 5.1.0 and cvc5 1.0",
    }],
    "checks": checks,
    "not_applicable": na,
    "notes": "Contracts live in /repo/<pkg>/zz_contracts_verif.go (build tag verif) and assumed dependency contracts in /verif/spec/*.gvc. known_findings.jsonl lists recorded and fixed defects.",
}
json.dump(manifest, open("/verif/MANIFEST.json", "w"), indent=1)
print("claimed:", sorted(CLAIMED), "n/a:", len(na))
