#!/bin/sh
# Must-fail corpus: every mutant (a deliberately broken body) must make its property's
# check exit 1 and name the expected obligation. Runs on a scratch copy of /repo outside
# /repo and /verif, removed afterwards. Usage: selftest.sh [Cxx ...]
export GOFLAGS=-mod=mod GOPROXY=off GOSUMDB=off GOTOOLCHAIN=local
props="$*"
fail=0; n=0
for m in /verif/selftest/mutants/*.patch; do
  [ -f "$m" ] || continue
  base=$(basename "$m" .patch)
  prop=${base%%-*}
  if [ -n "$props" ]; then case " $props " in *" $prop "*) ;; *) continue;; esac; fi
  expect=$(sed -n 's/^# expect: //p' "$m" | head -1)
  scratch=$(mktemp -d /tmp/gvc-selftest-XXXXXX)
  rsync -a --exclude .git /repo/ "$scratch/repo/"
  mkdir -p "$scratch/out"
  if ! (cd "$scratch/repo" && patch -s -p1 < "$m"); then echo "SELFTEST $base: patch does not apply"; fail=1; rm -rf "$scratch"; continue; fi
  dirs=$(sed -n 's|^+++ b/\(.*\)/[^/]*$|./\1|p' "$m" | sort -u | tr '\n' ' ')
  if ! (cd "$scratch/repo" && go build $dirs >/dev/null 2>&1); then echo "SELFTEST $base: mutant does not compile"; fail=1; rm -rf "$scratch"; continue; fi
  out=$(GVC_OUT="$scratch/out" /verif/bin/gvc check --property "$prop" --tier quick --repo "$scratch/repo" 2>&1); rc=$?
  n=$((n+1))
  if [ $rc -ne 1 ]; then echo "SELFTEST $base: MISSED (exit $rc)"; fail=1
  elif [ -n "$expect" ] && ! echo "$out" | grep -q "$expect"; then echo "SELFTEST $base: failed but not at '$expect'"; echo "$out" | grep "^gvc: obligation" | head -3; fail=1
  else echo "SELFTEST $base: caught ($(echo "$out" | grep -c '^VIOLATION') violation lines)"; fi
  rm -rf "$scratch"
done
# harmless-edit corpus: behaviour-preserving edits must stay green
for m in /verif/selftest/harmless/*.patch; do
  [ -f "$m" ] || continue
  base=$(basename "$m" .patch)
  prop=${base%%-*}
  if [ -n "$props" ]; then case " $props " in *" $prop "*) ;; *) continue;; esac; fi
  scratch=$(mktemp -d /tmp/gvc-selftest-XXXXXX)
  rsync -a --exclude .git /repo/ "$scratch/repo/"; mkdir -p "$scratch/out"
  if ! (cd "$scratch/repo" && patch -s -p1 < "$m"); then echo "SELFTEST harmless $base: patch does not apply"; fail=1; rm -rf "$scratch"; continue; fi
  out=$(GVC_OUT="$scratch/out" /verif/bin/gvc check --property "$prop" --tier quick --repo "$scratch/repo" 2>&1); rc=$?
  if [ $rc -ne 0 ]; then echo "SELFTEST harmless $base: FALSE ALARM"; echo "$out" | grep "^gvc: obligation" | head -3; fail=1
  else echo "SELFTEST harmless $base: quiet"; fi
  rm -rf "$scratch"
done
echo "selftest: $n mutants run, fail=$fail"
exit $fail
