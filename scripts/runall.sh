#!/bin/sh
# Runs every claimed check (quick) on /repo; one summary line per property
# (plus at most three VIOLATION lines each).
for p in $(python3 -c "import json;print(' '.join(c['property_id'] for c in json.load(open('/verif/MANIFEST.json'))['checks']))") "$@"; do
  /verif/bin/gvc check --property $p --tier quick 2>&1 | grep "^gvc: property\|^VIOLATION" | cut -c1-220 | awk '/^VIOLATION/{n++; if(n<=3) print; next} {print}'
done
