#!/bin/sh
# Runs every claimed check's quick command from MANIFEST.json on /repo; one summary
# line per property (plus at most three VIOLATION lines each). Extra ids may be given.
python3 -c "
import json
for c in json.load(open('/verif/MANIFEST.json'))['checks']: print(c['quick_cmd'])
" > /tmp/runall.cmds
for p in "$@"; do echo "/verif/bin/gvc check --property $p --tier quick" >> /tmp/runall.cmds; done
while read -r cmd; do
  sh -c "$cmd" 2>&1 | grep "^gvc: property\|^VIOLATION" | cut -c1-220 | awk '/^VIOLATION/{n++; if(n<=3) print; next} {print}'
done < /tmp/runall.cmds
