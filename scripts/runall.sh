#!/bin/sh
# Runs every claimed check (quick) on /repo; prints one line per property.
for p in $(python3 -c "import json;print(' '.join(c['property_id'] for c in json.load(open('/verif/MANIFEST.json'))['checks']))") "$@"; do
  /verif/bin/gvc check --property $p --tier quick 2>&1 | grep "^gvc: property\|^VIOLATION\|^KNOWN" | cut -c1-200
done
