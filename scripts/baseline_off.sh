#!/bin/sh
# Runs the repository's test suite with the verif guard OFF (no build tags).
export GOFLAGS=-mod=mod GOPROXY=off GOSUMDB=off GOTOOLCHAIN=local
cd /repo && go test -json -vet=off -count=1 -timeout 25m ./...
