module axioms

go 1.21
