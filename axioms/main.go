// validate_axioms: bounded differential check of the standard-library facts that the
// SMT preludes in /verif/spec state as axioms (bytes.Join/Split/SplitN/HasPrefix/
// Compare, slicing of a joined pair, big-endian and varint encodings, Float64bits,
// fmt.Sprintf with a %s-only format, and the finite-set counting facts). Every axiom is
// evaluated with the real functions over all small inputs; a counterexample is printed
// and the program exits 1. This does not prove the axioms (they are assumptions, listed
// in every evidence file); it guards against writing a false one.
package main

import (
	"bytes"
	"encoding/binary"
	"fmt"
	"math"
	"os"
	"sort"
	"strings"
)

var sep = []byte{0}
var failed = 0
var checked = 0

func fail(name string, args ...interface{}) {
	failed++
	if failed < 20 {
		fmt.Printf("AXIOM VIOLATED %s: %q\n", name, args)
	}
}

// all byte strings over {0x00,'a','b'} up to length n
func strs(n int) [][]byte {
	out := [][]byte{{}}
	cur := [][]byte{{}}
	for l := 0; l < n; l++ {
		var next [][]byte
		for _, s := range cur {
			for _, c := range []byte{0, 'a', 'b'} {
				t := append(append([]byte{}, s...), c)
				next = append(next, t)
			}
		}
		out = append(out, next...)
		cur = next
	}
	return out
}

func nozero(s []byte) bool { return !bytes.Contains(s, sep) }

func lists(pool [][]byte, n int) [][][]byte {
	out := [][][]byte{{}}
	cur := [][][]byte{{}}
	for l := 0; l < n; l++ {
		var next [][][]byte
		for _, p := range cur {
			for _, s := range pool {
				next = append(next, append(append([][]byte{}, p...), s))
			}
		}
		out = append(out, next...)
		cur = next
	}
	return out
}

func eqList(a, b [][]byte) bool {
	if len(a) != len(b) {
		return false
	}
	for i := range a {
		if !bytes.Equal(a[i], b[i]) {
			return false
		}
	}
	return true
}

func main() {
	small := strs(2)
	var nz [][]byte
	for _, s := range small {
		if nozero(s) {
			nz = append(nz, s)
		}
	}
	// A1: split(join(l)) == l for non-empty lists of NUL-free components
	for _, l := range lists(nz, 3) {
		if len(l) == 0 {
			continue
		}
		checked++
		if !eqList(bytes.Split(bytes.Join(l, sep), sep), l) {
			fail("A1 split-join", l)
		}
	}
	// A3: a key "p0 0 .. pk 0" is a byte prefix of join(l) iff p0..pk is a proper component prefix of l
	for _, l := range lists(nz, 3) {
		for _, p := range lists(nz, 3) {
			if len(p) == 0 {
				continue
			}
			q := append(append([][]byte{}, p...), []byte{})
			got := bytes.HasPrefix(bytes.Join(l, sep), bytes.Join(q, sep))
			want := len(l) > len(p) && eqList(l[:len(p)], p)
			checked++
			if got != want {
				fail("A3 prefix", l, p)
			}
		}
	}
	// join starts with its first component; length facts; first byte
	for _, l := range lists(small, 3) {
		if len(l) == 0 {
			continue
		}
		j := bytes.Join(l, sep)
		checked++
		if !bytes.HasPrefix(j, l[0]) || len(j) < len(l[0]) {
			fail("join-first", l)
		}
		if len(l[0]) >= 1 && j[0] != l[0][0] {
			fail("join-firstbyte", l)
		}
	}
	// N4: SplitN(.., 4)
	for _, a := range nz {
		for _, b := range nz {
			for _, c := range nz {
				for _, t := range strs(2) {
					checked++
					got := bytes.SplitN(bytes.Join([][]byte{a, b, c, t}, sep), sep, 4)
					if !eqList(got, [][]byte{a, b, c, t}) {
						fail("N4a", a, b, c, t)
					}
					for _, d := range small {
						got := bytes.SplitN(bytes.Join([][]byte{a, b, c, t, d}, sep), sep, 4)
						if !eqList(got, [][]byte{a, b, c, bytes.Join([][]byte{t, d}, sep)}) {
							fail("N4b", a, b, c, t, d)
						}
					}
				}
			}
		}
	}
	// P2: joined pair
	for _, t := range strs(3) {
		for _, d := range strs(3) {
			j := bytes.Join([][]byte{t, d}, sep)
			checked++
			if len(j) != len(t)+1+len(d) || !bytes.Equal(j[:len(t)], t) || !bytes.Equal(j[len(t)+1:], d) || !bytes.Equal(j[len(t):], append([]byte{0}, d...)) {
				fail("P2 pair", t, d)
			}
		}
	}
	// ble = bytes.Compare <= 0: total order; prefix => ble; contiguity of a prefix range
	all := strs(3)
	le := func(a, b []byte) bool { return bytes.Compare(a, b) <= 0 }
	for _, a := range all {
		for _, b := range all {
			checked++
			if !(le(a, b) || le(b, a)) || (le(a, b) && le(b, a) && !bytes.Equal(a, b)) {
				fail("ble total/antisym", a, b)
			}
			if bytes.HasPrefix(a, b) && !le(b, a) {
				fail("prefix=>ble", a, b)
			}
		}
	}
	mid := strs(2)
	for _, p := range mid {
		for _, b := range all {
			for _, c := range all {
				checked++
				if bytes.HasPrefix(c, p) && le(p, b) && le(b, c) && !bytes.HasPrefix(b, p) {
					fail("contiguity(prefix as lower end)", p, b, c)
				}
				for _, a := range mid {
					if bytes.HasPrefix(a, p) && bytes.HasPrefix(c, p) && le(a, b) && le(b, c) && !bytes.HasPrefix(b, p) {
						fail("contiguity", p, a, b, c)
					}
				}
			}
		}
	}
	// counting facts over small key sets
	keys := strs(2)
	for mask := 0; mask < 1<<uint(len(keys)); mask += 7 { // a spread of subsets
		var set [][]byte
		for i, k := range keys {
			if mask&(1<<uint(i)) != 0 {
				set = append(set, k)
			}
		}
		sort.Slice(set, func(i, j int) bool { return bytes.Compare(set[i], set[j]) < 0 })
		for _, p := range keys {
			pc := 0
			for _, k := range set {
				if bytes.HasPrefix(k, p) {
					pc++
				}
			}
			below := func(x []byte) int {
				n := 0
				for _, k := range set {
					if bytes.HasPrefix(k, p) && bytes.Compare(k, x) < 0 {
						n++
					}
				}
				return n
			}
			// first key at or after p: nothing with the prefix below it
			for i, k := range set {
				checked++
				if le(p, k) && (i == 0 || !le(p, set[i-1])) && below(k) != 0 {
					fail("pbelow first", set, p, k)
				}
				if bytes.HasPrefix(k, p) {
					if i+1 < len(set) {
						if below(set[i+1]) != below(k)+1 {
							fail("pbelow step", set, p, k)
						}
					} else if pc != below(k)+1 {
						fail("pcount last", set, p, k)
					}
				}
				if le(p, k) && !bytes.HasPrefix(k, p) && below(k) != pc {
					fail("pbelow past prefix", set, p, k)
				}
			}
		}
	}
	// encodings
	var buf [8]byte
	for _, u := range []uint64{0, 1, 255, 256, 1 << 31, 1<<63 - 1, 1 << 63, math.MaxUint64} {
		binary.BigEndian.PutUint64(buf[:], u)
		checked++
		if binary.BigEndian.Uint64(buf[:]) != u {
			fail("be64 roundtrip", u)
		}
		vb := make([]byte, binary.MaxVarintLen64)
		binary.PutUvarint(vb, u)
		if v, _ := binary.Uvarint(vb); v != u {
			fail("uvarint roundtrip", u)
		}
	}
	for _, f := range []float64{0, math.Copysign(0, -1), 1, -1, 0.5, -0.5, math.MaxFloat64, -math.MaxFloat64, math.SmallestNonzeroFloat64, math.Inf(1), math.Inf(-1)} {
		checked++
		if g := math.Float64frombits(math.Float64bits(f)); g != f || math.Signbit(g) != math.Signbit(f) {
			fail("f64bits roundtrip", f)
		}
	}
	for _, a := range []string{"", "x", "a b", "%"} {
		for _, b := range []string{"", "y", "'"} {
			checked++
			if fmt.Sprintf("p%sq%sr", a, b) != "p"+a+"q"+b+"r" {
				fail("sprintf concat", a, b)
			}
		}
	}
	// dash.smt2: Split(a+"-"+b+"-"+c, "-") for dash-free parts; dash-freedom of concatenations
	for _, a := range []string{"", "x", "xy", "x.y"} {
		for _, b := range []string{"", "l", "lab"} {
			for _, c := range []string{"", "z", "p:q"} {
				checked++
				got := strings.Split(a+"-"+b+"-"+c, "-")
				if len(got) != 3 || got[0] != a || got[1] != b || got[2] != c {
					fail("dash split", a, b, c)
				}
				if strings.Contains(a+b, "-") != (strings.Contains(a, "-") || strings.Contains(b, "-")) {
					fail("nodash concat", a, b)
				}
			}
		}
	}
	// distinct.smt2: the Go-syntax rendering (%#v) of JSON values contains no NUL byte and
	// separates values that differ (so the NUL-joined tuple of renderings determines the
	// tuple of values); bytes.Join is a function of the elements it is given.
	jvals := []interface{}{nil, true, false, 0.0, 7.0, -7.0, 1.5, 1e21, "", "7", "1.5", "true", "false", "<nil>", "nil", "a", "a\x00b", "\x00", "\"a\"", "[]interface {}{}",
		[]interface{}{}, []interface{}{"a"}, []interface{}{"a", "b"}, []interface{}{7.0}, []interface{}{"7"},
		map[string]interface{}{}, map[string]interface{}{"a": 1.0}, map[string]interface{}{"a": "1"}}
	for i, a := range jvals {
		ra := fmt.Sprintf("%#v", a)
		checked++
		if strings.Contains(ra, "\x00") {
			fail("gosyntax has no NUL", ra)
		}
		for j, b := range jvals {
			checked++
			if i != j && ra == fmt.Sprintf("%#v", b) {
				fail("gosyntax separates values", ra, i, j)
			}
		}
	}
	for _, l := range lists(strs(2), 3) {
		checked++
		cp := make([][]byte, len(l), len(l)+3)
		for i := range l {
			cp[i] = append([]byte{}, l[i]...)
		}
		if !bytes.Equal(bytes.Join(l, sep), bytes.Join(cp, sep)) {
			fail("join is a function of the elements", l)
		}
	}
	fmt.Printf("validate_axioms: %d instances checked, %d violations\n", checked, failed)
	if failed > 0 {
		os.Exit(1)
	}
}
