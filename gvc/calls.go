package main

import (
	"fmt"
	"go/constant"
	"go/token"
	"go/types"
	"strings"

	"golang.org/x/tools/go/ssa"
)

// calleeName gives the lookup keys for a callee: full name and, for functions of
// the repository, (dir, relative name).
func (v *Verifier) funcKey(fn *ssa.Function) string {
	if fn == nil {
		return "lemma"
	}
	if fn.Pkg == nil {
		if fn.Parent() != nil {
			return v.funcKey(fn.Parent()) + "$" + strings.TrimPrefix(fn.Name(), fn.Parent().Name()+"$")
		}
		return fn.String()
	}
	return fn.Pkg.Pkg.Path() + "::" + fn.RelString(fn.Pkg.Pkg)
}

func (v *Verifier) contractFor(fn *ssa.Function) *Contract {
	if fn == nil {
		return nil
	}
	// an extern contract written for the callers of one package only:
	//   //@ extern <full name>@<dir>
	// (e.g. what proto.Unmarshal does to a *kvindex.Doc, stated where that type is in scope)
	if v.curDir != "" {
		if c, ok := v.DB.ByKey[fn.String()+"@"+v.curDir]; ok {
			return c
		}
	}
	pkg := fn.Pkg
	if pkg == nil && fn.Parent() != nil {
		pkg = fn.Parent().Pkg
	}
	if pkg != nil {
		path := pkg.Pkg.Path()
		rel := fn.RelString(pkg.Pkg)
		if strings.HasPrefix(path, v.Module) {
			dir := strings.TrimPrefix(strings.TrimPrefix(path, v.Module), "/")
			if dir == "" {
				dir = "."
			}
			if c, ok := v.DB.ByKey[dir+"::"+rel]; ok {
				return c
			}
		}
		if c, ok := v.DB.ByKey[path+"."+rel]; ok {
			return c
		}
	}
	if c, ok := v.DB.ByKey[fn.String()]; ok {
		return c
	}
	return nil
}

func (x *Exec) doCall(res ssa.Value, call *ssa.CallCommon, p token.Pos) {
	setRes := func(v Val) {
		if res != nil {
			if v.T != "" && v.Loc == nil && len(v.Tuple) == 0 {
				kl := v.KnownLen
				x.bind(res, v)
				r := x.vals[res]
				r.KnownLen = kl
				x.vals[res] = r
			} else {
				x.vals[res] = v
			}
		}
	}
	var args []Val
	for _, a := range call.Args {
		args = append(args, x.val(a))
	}
	if call.IsInvoke() {
		recv := x.val(call.Value)
		x.safe("nilderef", "invoke."+call.Method.Name(), "(not (= "+x.termOf(recv)+" ANil))", p)
		key := ifaceKey(call.Value.Type(), call.Method)
		c, ok := x.V.DB.ByKey[key]
		if x.V.curDir != "" {
			// an interface contract written for the callers of one package only (iface <name>@<dir>)
			if sc, sok := x.V.DB.ByKey[key+"@"+x.V.curDir]; sok {
				c, ok = sc, true
			}
		}
		if ok {
			sig := call.Method.Type().(*types.Signature)
			if cb := c.Options["callback"]; cb != "" {
				// "calls its function argument exactly once, synchronously, and returns
				// what it returns": the closure is executed in place with fresh arguments
				var idx int
				fmt.Sscanf(cb, "%d", &idx)
				if idx < len(args) && args[idx].Fn != nil {
					fsig := args[idx].Fn.Signature
					var cbArgs []Val
					for i := 0; i < fsig.Params().Len(); i++ {
						pt := fsig.Params().At(i).Type()
						fresh := tv(x.smt.fresh("cbarg", x.smt.sortOf(pt)))
						if x.smt.sortOf(pt) == "Any" {
							x.smt.assume(implies(x.reach, "(not (= "+fresh.T+" ANil))"))
						}
						cbArgs = append(cbArgs, fresh)
					}
					x.ensureGhost(c.Modifies)
					if pre := c.Options["before"]; pre == "resetiter" {
						x.setSV("KV.itvalid", "Bool", "false")
					}
					x.V.noteAssumed(key + " calls its callback exactly once and returns its result")
					x.runTransaction(c, key, args[idx], cbArgs, setRes, p)
					return
				}
				x.markA(key + ": callback argument is not a closure literal")
			}
			names := []string{"self"}
			tys := []types.Type{call.Value.Type()}
			for i := 0; i < sig.Params().Len(); i++ {
				names = append(names, sig.Params().At(i).Name())
				tys = append(tys, sig.Params().At(i).Type())
			}
			if len(c.Params) == len(names) {
				names = c.Params // the contract's own names (interface methods often leave parameters unnamed)
			}
			setRes(x.applyContract(c, key, append([]Val{recv}, args...), names, tys, sig.Results(), p))
			return
		}
		x.unknownCall(key, call.Signature().Results(), setRes, false)
		return
	}
	switch f := call.Value.(type) {
	case *ssa.Builtin:
		setRes(x.doBuiltin(f, call, args, p))
		return
	case *ssa.Function:
		x.callFunction(f, nil, args, call, setRes, p)
		return
	case *ssa.MakeClosure:
		cv := x.val(f)
		x.callFunction(cv.Fn, cv.Binds, args, call, setRes, p)
		return
	}
	fv := x.val(call.Value)
	if fv.Fn != nil {
		x.callFunction(fv.Fn, fv.Binds, args, call, setRes, p)
		return
	}
	// call of an unknown function value
	tn := call.Value.Type().String()
	if tn == "context.CancelFunc" {
		setRes(Val{KnownLen: -1})
		return
	}
	// a function-valued parameter may carry its own contract, written as
	//   //@ extern param:<dir>::<function>:<parameter>
	// whose clauses may also mention the enclosing function's variables
	if prm, ok := call.Value.(*ssa.Parameter); ok && x.parent == nil {
		dir := strings.TrimPrefix(strings.TrimPrefix(strings.SplitN(x.V.funcKey(x.fn), "::", 2)[0], x.V.Module), "/")
		rel := strings.SplitN(x.V.funcKey(x.fn), "::", 2)[1]
		key := "param:" + dir + "::" + rel + ":" + prm.Name()
		if c, ok := x.V.DB.ByKey[key]; ok {
			sig := call.Signature()
			var names []string
			var tys []types.Type
			for i := 0; i < sig.Params().Len(); i++ {
				n := fmt.Sprintf("a%d", i)
				if i < len(c.Params) {
					n = c.Params[i]
				}
				names = append(names, n)
				tys = append(tys, sig.Params().At(i).Type())
			}
			x.outerEnv = x.specEnvAt(x.cur, nil)
			setRes(x.applyContract(c, key, args, names, tys, sig.Results(), p))
			x.outerEnv = nil
			return
		}
	}
	x.unknownCall("funcvalue:"+call.Value.Name()+":"+tn, call.Signature().Results(), setRes, false)
}

// checkCallSites generates the caller's own call-site conditions for a call of `name`
// (ordering of effects: "by the time this call is made, ... already holds"); they apply to
// the function under contract and to its own closures, whether the callee is under
// contract, inlined or unknown.
func (x *Exec) checkCallSites(name string, args []Val, tys []types.Type, p token.Pos) {
	rc := x.root().c
	if rc == nil || x.fn == nil || x.discovering || !x.ownCode() {
		return
	}
	for _, cs := range rc.CallSites {
		if !strings.Contains(name, cs.Callee) {
			continue
		}
		cenv := x.specEnvAt(x.cur, nil)
		for i, a := range args {
			var t types.Type
			if i < len(tys) {
				t = tys[i]
			}
			cenv.vars[fmt.Sprintf("arg%d", i)] = SpecVal{V: a, Go: t}
		}
		t, err := x.evalSpec(cs.E, cenv)
		if err != nil {
			x.specError(cs, err)
			continue
		}
		x.oblige("callsite", fmt.Sprintf("callsite:%s:%d", cs.Name, x.callN[name]), x.reach, t, cs.Src, p)
	}
}

// runTransaction executes the callback of a View/Update/BulkWrite-like call in place.
// With `option onerror=rollback` the store keeps the callback's writes only when the
// callback returns no error: a transaction whose function fails is aborted (bolt, badger
// and pebble Update; the write batch of BulkWrite is cancelled).
func (x *Exec) runTransaction(c *Contract, key string, fn Val, cbArgs []Val, setRes func(Val), p token.Pos) {
	rollback := c.Options["onerror"] == "rollback"
	var preDom, preVal Term
	if rollback {
		preDom = x.getSV("KV.dom", ghostSVs["KV.dom"])
		preVal = x.getSV("KV.val", ghostSVs["KV.val"])
	}
	var res Val
	x.callFunction(fn.Fn, fn.Binds, cbArgs, nil, func(v Val) { res = v; setRes(v) }, p)
	if rollback && res.T != "" {
		// bolt and badger discard the writes of a failed function; the leveldb driver
		// commits regardless and the pebble driver has no transactions: either may happen
		discards := x.smt.fresh("txn.discards", "Bool")
		failed := "(and " + discards + " (not (= " + x.termOf(res) + " ANil)))"
		x.setSV("KV.dom", ghostSVs["KV.dom"], ite(failed, preDom, x.getSV("KV.dom", ghostSVs["KV.dom"])))
		x.setSV("KV.val", ghostSVs["KV.val"], ite(failed, preVal, x.getSV("KV.val", ghostSVs["KV.val"])))
		x.V.noteAssumed(key + " discards the writes of its callback when the callback returns an error")
	}
	if c.Options["counts"] == "write" {
		// the whole transaction is one top-level (atomic) write
		w := x.getSV("KV.writes", "Int")
		x.setSV("KV.writes", "Int", "(+ "+w+" 1)")
	}
}

func ifaceKey(t types.Type, m *types.Func) string {
	n := t.String()
	if nt, ok := t.(*types.Named); ok {
		n = nt.Obj().Pkg().Path() + "." + nt.Obj().Name()
	}
	return n + "." + m.Name()
}

func (x *Exec) resultVal(results *types.Tuple, prefix string) Val {
	switch results.Len() {
	case 0:
		return Val{KnownLen: -1}
	case 1:
		t := results.At(0).Type()
		r := tv(x.smt.fresh(prefix, x.smt.sortOf(t)))
		x.typeFacts(r.T, t)
		return r
	}
	var vs []Val
	for i := 0; i < results.Len(); i++ {
		t := results.At(i).Type()
		r := tv(x.smt.fresh(fmt.Sprintf("%s.%d", prefix, i), x.smt.sortOf(t)))
		x.typeFacts(r.T, t)
		vs = append(vs, r)
	}
	return Val{Tuple: vs, KnownLen: -1}
}

func (x *Exec) unknownCall(name string, results *types.Tuple, setRes func(Val), pure bool) {
	if !pure {
		pure = x.V.isPureName(name)
	}
	if !pure && x.root().initDepth > 0 {
		// inside a package initialiser: library registration calls (protobuf, drivers)
		// are assumed not to change the package's own variables
		pure = true
		x.V.noteAssumed("calls made by package initialisers (" + name + ") do not modify the package's variables")
	}
	if !pure {
		x.havocMatching([]string{"*"})
		x.noteUnmodelled(name + " (havoc)")
	} else {
		x.noteUnmodelled(name + " (pure, result unconstrained)")
	}
	setRes(x.resultVal(results, "call."+shortType(name)))
}

func (x *Exec) noteUnmodelled(s string) {
	for _, u := range x.unmodelled {
		if u == s {
			return
		}
	}
	x.unmodelled = append(x.unmodelled, s)
}

func (x *Exec) callFunction(f *ssa.Function, binds []Val, args []Val, call *ssa.CallCommon, setRes func(Val), p token.Pos) {
	sig := f.Signature
	if f.Name() == "init" && f.Signature.Recv() == nil && f.Signature.Params().Len() == 0 && x.parent != nil && x.fn != nil && x.fn.Name() == "init" {
		// initialisers of imported packages: their effects are on their own variables
		setRes(Val{KnownLen: -1})
		return
	}
	if c := x.V.contractFor(f); c != nil && !c.Inline {
		if cb := c.Options["callback"]; cb != "" {
			// an assumed library function that "calls its function argument exactly once,
			// synchronously, and returns what it returns" (index counted over the call's
			// arguments, receiver first): the closure is executed in place
			var idx int
			fmt.Sscanf(cb, "%d", &idx)
			if idx < len(args) && args[idx].Fn != nil {
				fsig := args[idx].Fn.Signature
				var cbArgs []Val
				for i := 0; i < fsig.Params().Len(); i++ {
					pt := fsig.Params().At(i).Type()
					fresh := tv(x.smt.fresh("cbarg", x.smt.sortOf(pt)))
					if x.smt.sortOf(pt) == "Any" {
						x.smt.assume(implies(x.reach, "(not (= "+fresh.T+" ANil))"))
					} else if _, isPtr := pt.Underlying().(*types.Pointer); isPtr {
						x.smt.assume(implies(x.reach, "(> "+fresh.T+" 0)"))
					}
					cbArgs = append(cbArgs, fresh)
				}
				x.ensureGhost(c.Modifies)
				if pre := c.Options["before"]; pre == "resetiter" {
					x.setSV("KV.itvalid", "Bool", "false")
				}
				if ce := c.Options["cbarg0"]; ce != "" && len(cbArgs) > 0 {
					// "the callback's first argument is <expr>" (over the contract's parameter names)
					if err := x.usePreludes(c); err != nil {
						x.specError(NamedExpr{Name: "prelude:" + x.V.funcKey(f)}, err)
					}
					if se, err := parseSpec(ce); err != nil {
						x.specError(NamedExpr{Name: "cbarg0:" + x.V.funcKey(f)}, err)
					} else {
						env := &SpecEnv{vars: map[string]SpecVal{}, x: x, callee: true}
						for i, n := range c.Params {
							if i < len(args) {
								env.vars[n] = SpecVal{V: args[i]}
							}
						}
						env.st = x.st.clone()
						if t, err := x.evalSpec(se, env); err != nil {
							x.specError(NamedExpr{Name: "cbarg0:" + x.V.funcKey(f)}, err)
						} else {
							x.smt.assume(implies(x.reach, eq(cbArgs[0].T, t)))
							x.V.noteAssumed(x.V.funcKey(f) + " hands its callback " + ce)
						}
					}
				}
				x.V.noteAssumed(x.V.funcKey(f) + " calls its callback exactly once and returns its result")
				x.runTransaction(c, x.V.funcKey(f), args[idx], cbArgs, setRes, p)
				return
			}
			x.markA(x.V.funcKey(f) + ": callback argument is not a closure literal")
		}
		var names []string
		var tys []types.Type
		if sig.Recv() != nil {
			n := sig.Recv().Name()
			if n == "" || n == "_" {
				n = "self"
			}
			names = append(names, n)
			tys = append(tys, sig.Recv().Type())
		}
		for i := 0; i < sig.Params().Len(); i++ {
			names = append(names, sig.Params().At(i).Name())
			tys = append(tys, sig.Params().At(i).Type())
		}
		if len(c.Params) > 0 {
			names = c.Params
		}
		setRes(x.applyContract(c, x.V.funcKey(f), args, names, tys, sig.Results(), p))
		return
	}
	if rc := x.root().c; rc != nil && len(rc.CallSites) > 0 {
		// call-site conditions also guard calls of functions that are not under contract
		name := x.V.funcKey(f)
		var tys []types.Type
		if sig.Recv() != nil {
			tys = append(tys, sig.Recv().Type())
		}
		for i := 0; i < sig.Params().Len(); i++ {
			tys = append(tys, sig.Params().At(i).Type())
		}
		x.callN[name]++
		x.checkCallSites(name, args, tys, p)
	}
	if r, ok := x.builtinSpec(f, args, call, p); ok {
		setRes(r)
		return
	}
	if x.canInline(f) {
		setRes(x.inline(f, binds, args, p))
		return
	}
	x.unknownCall(f.String(), sig.Results(), setRes, false)
}

func (x *Exec) canInline(f *ssa.Function) bool {
	if f.Blocks == nil || x.inlineDepth >= 5 {
		return false
	}
	if c := x.V.contractFor(f); c != nil && c.Inline {
		return true
	}
	if f == x.fn {
		return false
	}
	for p := x; p != nil; p = p.parent {
		if p.fn == f {
			return false
		}
	}
	if len(f.Blocks) > 40 {
		return false
	}
	// closures of the function under contract may contain loops: their invariants
	// are written in the enclosing contract as loop <100*closure + n>
	ownClosure := f.Parent() != nil && f.Parent() == x.root().fn
	for _, b := range f.Blocks {
		for _, s := range b.Succs {
			if s.Dominates(b) && !ownClosure {
				return false // has a loop
			}
		}
		for _, ins := range b.Instrs {
			switch ins.(type) {
			case *ssa.Go:
				return false
			case *ssa.Select:
				if !ownClosure {
					return false
				}
			}
		}
	}
	return true
}

// inline executes the callee's body in place (used for small loop-free helpers
// such as generated getters; the text executed is the real SSA of the callee).
func (x *Exec) inline(f *ssa.Function, binds []Val, args []Val, p token.Pos) Val {
	x.V.inlineCount++
	ch := &Exec{V: x.V, fn: f, c: x.c, smt: x.smt, vals: map[ssa.Value]Val{}, st: x.st, init: x.init, svSort: x.svSort,
		edges: map[*ssa.BasicBlock][]edge{}, done: map[*ssa.BasicBlock]bool{}, safeN: x.safeN, written: x.written,
		discovering: x.discovering, inlineDepth: x.inlineDepth + 1, callN: x.callN, parent: x,
		fvKnown: map[string]int{}, iterSV: map[*ssa.Range]string{}, entryReach: x.reach,
		refWrites: x.refWrites, freshRefs: x.freshRefs}
	x.V.inlineSeq++
	ch.nameSuffix = fmt.Sprintf("%s~%d", x.nameSuffix, x.V.inlineSeq)
	if f.Parent() != nil && f.Parent() == x.root().fn {
		for k, af := range f.Parent().AnonFuncs {
			if af == f {
				ch.loopBase = 100 * (k + 1)
			}
		}
	}
	ch.lastIter, ch.lastIterSort = x.lastIter, x.lastIterSort
	for i, prm := range f.Params {
		if i < len(args) {
			ch.vals[prm] = args[i]
		}
	}
	for i, fv := range f.FreeVars {
		if i < len(binds) {
			ch.vals[fv] = binds[i]
		}
	}
	ch.analyseLoops()
	ch.obligs = nil
	ch.runBlocks(rpo(f, nil, f.Blocks[0]), nil)
	// obligations raised in the inlined body belong to the caller
	for _, o := range ch.obligs {
		rootName := x.V.funcKey(x.root().fn)
		if x.root().fn == nil {
			rootName = x.root().lemmaName
		}
		o.Name = rootName + "#" + strings.SplitN(o.Name, "#", 2)[1] + "@" + f.Name()
		o.Func = rootName
		o.ex = x.root()
		x.obligs = append(x.obligs, o)
	}
	for _, a := range ch.classA {
		x.markA(a)
	}
	for _, u := range ch.unmodelled {
		x.noteUnmodelled(u)
	}
	x.spawned = append(x.spawned, ch.spawned...)
	if len(ch.rets) == 0 {
		// callee never returns (panics): the rest of the block is unreachable
		x.smt.assume(not(x.reach))
		x.st = ch.st
		return x.resultVal(f.Signature.Results(), "noret")
	}
	var es []edge
	for _, r := range ch.rets {
		es = append(es, edge{cond: r.reach, st: r.st})
	}
	x.st = x.mergeStates(es)
	// every path of the callee either returns or panics; continuing means it returned
	var conds []Term
	for _, r := range ch.rets {
		conds = append(conds, r.reach)
	}
	x.smt.assume(implies(x.reach, or(conds...)))
	nres := f.Signature.Results().Len()
	if nres == 0 {
		return Val{KnownLen: -1}
	}
	var outs []Val
	for k := 0; k < nres; k++ {
		var vs []Val
		for _, r := range ch.rets {
			vs = append(vs, r.vals[k])
		}
		outs = append(outs, x.mergeVals(es, vs, x.smt.sortOf(f.Signature.Results().At(k).Type()), fmt.Sprintf("ret.%s.%d%s", f.Name(), k, ch.nameSuffix)))
	}
	if nres == 1 {
		return outs[0]
	}
	return Val{Tuple: outs, KnownLen: -1}
}

// ownCode: the code being executed is the function under contract itself or one of
// its closures (as opposed to an inlined callee).
func (x *Exec) ownCode() bool {
	rf := x.root().fn
	for f := x.fn; f != nil; f = f.Parent() {
		if f == rf {
			return true
		}
	}
	return false
}

func (x *Exec) root() *Exec {
	r := x
	for r.parent != nil {
		r = r.parent
	}
	return r
}

// applyContract: assert requires, havoc the frame, assume ensures.
func (x *Exec) applyContract(c *Contract, name string, args []Val, names []string, tys []types.Type, results *types.Tuple, p token.Pos) Val {
	env := &SpecEnv{vars: map[string]SpecVal{}, x: x, callee: true}
	if err := x.usePreludes(c); err != nil {
		x.specError(NamedExpr{Name: "prelude:" + name}, err)
	}
	if c.Dir != "" {
		// names in a contract resolve in the package the contract is written in
		if sp := x.V.Pkgs[x.V.Module+"/"+c.Dir]; sp != nil {
			env.pkg = sp.Pkg
		}
	}
	for i, n := range names {
		if i < len(args) && n != "" && n != "_" {
			var t types.Type
			if i < len(tys) {
				t = tys[i]
			}
			env.vars[n] = SpecVal{V: args[i], Go: t}
		}
	}
	pre := x.st.clone()
	env.st = pre
	env.old = pre
	env.lets = c.Lets
	if x.outerEnv != nil {
		for k, v := range x.outerEnv.vars {
			if _, dup := env.vars[k]; !dup {
				env.vars[k] = v
			}
		}
		env.lets = append(append([]NamedExpr{}, c.Lets...), x.outerEnv.lets...)
	}
	x.callN[name]++
	x.checkCallSites(name, args, tys, p)
	for _, r := range c.Requires {
		t, err := x.evalSpec(r.E, env)
		if err != nil {
			x.specError(r, err)
			continue
		}
		short := name
		if i := strings.LastIndex(short, "::"); i >= 0 {
			short = short[i+2:]
		}
		if i := strings.LastIndex(short, "/"); i >= 0 {
			short = short[i+1:]
		}
		x.oblige("requires", fmt.Sprintf("requires@%s:%s:%d", short, r.Name, x.callN[name]), x.reach, t, r.Src, p)
	}
	if !c.Pure {
		if len(c.Modifies) > 0 {
			x.ensureGhost(c.Modifies)
			x.havocMatching(c.Modifies)
		} else {
			x.havocMatching([]string{"*"})
		}
	}
	var nr Term
	if c.Fresh && results.Len() >= 1 {
		nr = x.newRef() // before the result is introduced: the result lies below the new frontier
	}
	res := x.resultVal(results, "res."+shortType(lastSeg(name)))
	if c.Fresh && results.Len() >= 1 {
		r := res
		if len(res.Tuple) > 0 {
			r = res.Tuple[0]
		}
		so := x.smt.sortOf(results.At(0).Type())
		if so == "Slice" {
			x.smt.assume(implies(x.reach, "(= (sref "+r.T+") "+nr+")"))
		} else {
			x.smt.assume(implies(x.reach, "(= "+r.T+" "+nr+")"))
		}
	}
	env.st = x.st
	env.results = res
	env.resTypes = results
	for _, a := range c.Axioms {
		t, err := x.evalSpec(a.E, env)
		if err != nil {
			x.specError(a, err)
			continue
		}
		x.smt.assume(t)
	}
	for _, e := range c.Names {
		t, err := x.evalSpec(e.E, env)
		if err != nil {
			x.specError(e, err)
			continue
		}
		x.smt.assume(implies(x.reach, t))
		x.V.noteAssumed("result of " + lastSeg(name) + " named by a spec function (determinism): " + e.Src)
	}
	for _, e := range c.Ensures {
		t, err := x.evalSpec(e.E, env)
		if err != nil {
			x.specError(e, err)
			continue
		}
		x.smt.assume(implies(x.reach, t))
	}
	if c.Trusted {
		x.V.noteAssumed(name)
	}
	return res
}

func lastSeg(s string) string {
	if i := strings.LastIndex(s, "/"); i >= 0 {
		return s[i+1:]
	}
	return s
}

func (x *Exec) doBuiltin(f *ssa.Builtin, call *ssa.CallCommon, args []Val, p token.Pos) Val {
	switch f.Name() {
	case "len", "cap":
		t := call.Args[0].Type()
		a := x.termOf(args[0])
		switch u := t.Underlying().(type) {
		case *types.Basic:
			return tv("(strlen " + a + ")")
		case *types.Slice:
			if isByteSlice(t) {
				return tv("(strlen " + a + ")")
			}
			return tv("(slen " + a + ")")
		case *types.Map:
			return tv(ite("(= "+a+" 0)", "0", "(select "+x.getSV("MapN", arrII)+" "+a+")"))
		case *types.Chan:
			x.markA("len/cap of channel")
			return tv(x.smt.fresh("chlen", "Int"))
		case *types.Pointer:
			_ = u
			return tv("(slen " + a + ")")
		case *types.Array:
			return tv(intLit(u.Len()))
		}
	case "append":
		t := call.Args[0].Type()
		if isByteSlice(t) {
			return tv("(sconcat " + x.termOf(args[0]) + " " + x.termOf(args[1]) + ")")
		}
		elem := t.Underlying().(*types.Slice).Elem()
		sv, svs, so := x.sliceHeap(elem)
		a, b := x.termOf(args[0]), x.termOf(args[1])
		r := x.newRef()
		h := x.getSV(sv, svs)
		// contents: fresh array equal to a's elements followed by b's
		na := x.smt.fresh("append", "(Array Int "+so+")")
		la, lb := "(slen "+a+")", "(slen "+b+")"
		if args[1].KnownLen >= 0 && args[1].KnownLen <= 4 {
			// unrolled: store each appended element
			arr := "(select " + h + " (sref " + a + "))"
			cur := x.smt.fresh("appbase", "(Array Int "+so+")")
			x.smt.assume(implies(x.reach, fmt.Sprintf("(forall ((i Int)) (! (=> (and (<= 0 i) (< i %s)) (= (select %s i) (select %s (ix (soff %s) i)))) :pattern ((select %s i))))", la, cur, arr, a, cur)))
			t := cur
			for k := 0; k < args[1].KnownLen; k++ {
				t = fmt.Sprintf("(store %s (+ %s %d) (select (select %s (sref %s)) (ix (soff %s) %d)))", t, la, k, h, b, b, k)
			}
			x.smt.assume(implies(x.reach, "(= "+na+" "+t+")"))
			for k := 0; k < args[1].KnownLen; k++ {
				// the same fact through the index function contracts use (a ground
				// witness for "exists j :: result[j] == appended element")
				x.smt.assume(implies(x.reach, fmt.Sprintf("(= (select %s (ix 0 (+ %s %d))) (select (select %s (sref %s)) (ix (soff %s) %d)))", na, la, k, h, b, b, k)))
			}
		} else {
			x.smt.assume(implies(x.reach, fmt.Sprintf("(forall ((i Int)) (! (and (=> (and (<= 0 i) (< i %s)) (= (select %s i) (select (select %s (sref %s)) (ix (soff %s) i)))) (=> (and (<= %s i) (< i (+ %s %s))) (= (select %s i) (select (select %s (sref %s)) (ix (soff %s) (- i %s)))))) :pattern ((select %s i))))",
				la, na, h, a, a, la, la, lb, na, h, b, b, la, na)))
		}
		x.setSV(sv, svs, "(store "+h+" "+r+" "+na+")")
		res := tv("(mk-slice " + r + " 0 (+ " + la + " " + lb + "))")
		if args[0].KnownLen >= 0 && args[1].KnownLen >= 0 {
			res.KnownLen = args[0].KnownLen + args[1].KnownLen
		}
		return res
	case "close":
		x.closeChan(x.termOf(args[0]), p)
		return Val{KnownLen: -1}
	case "delete":
		m := x.termOf(args[0])
		k := x.termOf(args[1])
		mt := call.Args[0].Type().Underlying().(*types.Map)
		dsv, dso, _, _ := x.mapSV(mt)
		d := x.getSV(dsv, dso)
		n := x.getSV("MapN", arrII)
		x.setSV("MapN", arrII, "(store "+n+" "+m+" (ite (select (select "+d+" "+m+") "+k+") (- (select "+n+" "+m+") 1) (select "+n+" "+m+")))")
		x.setSV(dsv, dso, "(store "+d+" "+m+" (store (select "+d+" "+m+") "+k+" false))")
		return Val{KnownLen: -1}
	case "panic":
		x.safe("panic", "explicit", "false", p)
		x.smt.assume(not(x.reach))
		return Val{KnownLen: -1}
	case "print", "println":
		return Val{KnownLen: -1}
	case "copy":
		x.markA("builtin copy")
		x.havocMatching([]string{"SH."})
		return tv(x.smt.fresh("copy", "Int"))
	case "recover":
		return tv("ANil")
	case "min", "max":
		a, b := x.termOf(args[0]), x.termOf(args[1])
		if x.smt.sortOf(call.Args[0].Type()) == "Int" {
			if f.Name() == "min" {
				return tv(ite("(<= "+a+" "+b+")", a, b))
			}
			return tv(ite("(>= "+a+" "+b+")", a, b))
		}
	}
	x.markA("builtin " + f.Name())
	if call.Signature().Results().Len() == 1 {
		return tv(x.smt.fresh("builtin", x.smt.sortOf(call.Signature().Results().At(0).Type())))
	}
	return Val{KnownLen: -1}
}

// strList reads a [][]byte / []string slice of statically known length into an SL term.
func (x *Exec) strList(v Val, elem types.Type) (Term, bool) {
	if v.KnownLen < 0 {
		return "", false
	}
	sv, svs, _ := x.sliceHeap(elem)
	t := x.termOf(v)
	out := "snil"
	for k := v.KnownLen - 1; k >= 0; k-- {
		out = fmt.Sprintf("(scons (select (select %s (sref %s)) (ix (soff %s) %d)) %s)", x.getSV(sv, svs), t, t, k, out)
	}
	return out, true
}

// builtinSpec: Go-coded models of a few standard-library functions whose
// specification needs structural access to their arguments. Everything else is
// an 'extern' contract in /verif/spec/*.gvc.
func (x *Exec) builtinSpec(f *ssa.Function, args []Val, call *ssa.CallCommon, p token.Pos) (Val, bool) {
	name := f.String()
	switch name {
	case "bytes.Join", "strings.Join":
		elem := f.Signature.Params().At(0).Type().Underlying().(*types.Slice).Elem()
		if l, ok := x.strList(args[0], elem); ok {
			x.V.noteAssumed(name + " = bjoin(list, sep) [built-in model of the standard library]")
			return tv("(bjoin " + l + " " + x.termOf(args[1]) + ")"), true
		}
		// a slice whose length is not known statically: the join is named by bjoinA over
		// the slice's backing array, offset and length (uninterpreted; what a contract
		// needs of it is stated by its prelude)
		{
			sv, svs, _ := x.sliceHeap(elem)
			s := x.termOf(args[0])
			x.needDecl("bjoinA", "(declare-fun bjoinA ((Array Int Str) Int Int Str) Str)")
			x.V.noteAssumed(name + " of a slice of unknown length = bjoinA(elements, offset, length, sep): a function of the elements and the separator [built-in model of the standard library]")
			return tv(fmt.Sprintf("(bjoinA (select %s (sref %s)) (soff %s) (slen %s) %s)", x.getSV(sv, svs), s, s, s, x.termOf(args[1]))), true
		}
	case "bytes.Split", "strings.Split", "bytes.SplitN", "strings.SplitN":
		x.V.noteAssumed(name + " = bsplit(s, sep) [built-in model of the standard library]")
		r := x.newRef()
		var lst Term
		if strings.HasSuffix(name, "SplitN") {
			lst = x.smt.define("split", "SL", "(bsplitn "+x.termOf(args[0])+" "+x.termOf(args[1])+" "+x.termOf(args[2])+")")
		} else {
			lst = x.smt.define("split", "SL", "(bsplit "+x.termOf(args[0])+" "+x.termOf(args[1])+")")
		}
		sv, svs := "SH.Str", "(Array Int (Array Int Str))"
		na := x.smt.fresh("splitarr", "(Array Int Str)")
		// the first eight components are given explicitly (no quantifier needed for key parsers)
		var eqs []Term
		for k := 0; k < 8; k++ {
			eqs = append(eqs, fmt.Sprintf("(= (select %s %d) (slnth %s %d))", na, k, lst, k))
		}
		x.smt.assume(implies(x.reach, and(eqs...)))
		x.smt.assume(implies(x.reach, fmt.Sprintf("(forall ((i Int)) (! (= (select %s i) (slnth %s i)) :pattern ((select %s i))))", na, lst, na)))
		x.setSV(sv, svs, "(store "+x.getSV(sv, svs)+" "+r+" "+na+")")
		return tv("(mk-slice " + r + " 0 (sllen " + lst + "))"), true
	case "fmt.Sprintf":
		// a constant format made of literal text and %s verbs: when every operand is a
		// string the result is the concatenation (anything else stays uninterpreted)
		if len(args) == 2 && call != nil {
			if fc, ok := call.Args[0].(*ssa.Const); ok && fc.Value != nil && fc.Value.Kind() == constant.String {
				format := constant.StringVal(fc.Value)
				if format == "%#v" {
					// Go-syntax rendering of one operand: a function of the value, named gosyntax
					s := x.termOf(args[1])
					h := x.getSV("SH.Any", "(Array Int (Array Int Any))")
					x.needDecl("gosyntax", "(declare-fun gosyntax (Any) Str)")
					r := tv(x.smt.fresh("sprintf", "Str"))
					el := fmt.Sprintf("(select (select %s (sref %s)) (ix (soff %s) 0))", h, s, s)
					x.smt.assume(implies(x.reach, implies(fmt.Sprintf("(= (slen %s) 1)", s), eq(r.T, "(gosyntax "+el+")"))))
					x.V.noteAssumed("fmt.Sprintf(\"%#v\", v) = gosyntax(v): a function of the value [built-in model of the standard library]")
					return r, true
				}
				pieces := strings.Split(format, "%s")
				if !strings.Contains(strings.Join(pieces, ""), "%") {
					r := tv(x.smt.fresh("sprintf", "Str"))
					s := x.termOf(args[1])
					h := x.getSV("SH.Any", "(Array Int (Array Int Any))")
					var guard []Term
					var parts []Term
					if pieces[0] != "" {
						parts = append(parts, x.smt.strLit(pieces[0]))
					}
					for k := 1; k < len(pieces); k++ {
						el := fmt.Sprintf("(select (select %s (sref %s)) (ix (soff %s) %d))", h, s, s, k-1)
						guard = append(guard, "((_ is AStr) "+el+")")
						parts = append(parts, "(astr "+el+")")
						if pieces[k] != "" {
							parts = append(parts, x.smt.strLit(pieces[k]))
						}
					}
					if len(parts) == 0 {
						parts = append(parts, x.smt.strLit(""))
					}
					cat := parts[0]
					for _, q := range parts[1:] {
						cat = "(sconcat " + cat + " " + q + ")"
					}
					guard = append(guard, fmt.Sprintf("(= (slen %s) %d)", s, len(pieces)-1))
					x.smt.assume(implies(x.reach, implies(and(guard...), eq(r.T, cat))))
					x.V.noteAssumed("fmt.Sprintf with a constant %s-only format and string operands = concatenation [built-in model of the standard library]")
					return r, true
				}
			}
		}
	case "(encoding/binary.bigEndian).PutUint64":
		// writes the 8 big-endian bytes of v into the (whole) local byte array b views
		if len(args) == 3 && args[1].Origin != nil {
			x.needDecl("be64", "(declare-fun be64 (Int) Str)")
			x.writeLoc(args[1].Origin, "(be64 "+x.termOf(args[2])+")")
			x.V.noteAssumed(name + " writes be64(v) [built-in model of the standard library]")
			return Val{KnownLen: -1}, true
		}
	case "encoding/binary.PutUvarint":
		if len(args) == 2 && args[0].Origin != nil {
			x.needDecl("uvar", "(declare-fun uvar (Int) Str)")
			x.writeLoc(args[0].Origin, "(uvar "+x.termOf(args[1])+")")
			x.V.noteAssumed(name + " writes uvar(v) [built-in model of the standard library]")
			return tv(x.smt.fresh("uvarn", "Int")), true
		}
	case "bytes.HasPrefix", "strings.HasPrefix":
		return tv("(hasprefix " + x.termOf(args[0]) + " " + x.termOf(args[1]) + ")"), true
	}
	return Val{}, false
}
