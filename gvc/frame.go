package main

import (
	"go/types"
	"regexp"
	"strconv"
	"strings"
)

// isRefKeyed: state variables that are arrays indexed by a reference.
func isRefKeyed(name string) bool {
	for _, p := range []string{"H.", "Box.", "SH.", "MapD.", "MapV.", "MapN", "ChAt.", "ChWr", "ChRd", "ChClosed", "ChLen"} {
		if strings.HasPrefix(name, p) {
			return true
		}
	}
	return false
}

var bangNum = regexp.MustCompile(`!(\d+)`)

// mentionsNewer: the term mentions a name created after counter value n (i.e. a
// value computed inside the loop body during discovery).
func mentionsNewer(t string, n int) bool {
	for _, m := range bangNum.FindAllStringSubmatch(t, -1) {
		if k, err := strconv.Atoi(m[1]); err == nil && k > n {
			return true
		}
	}
	return false
}

// simplifyRef rewrites (sref (mk-slice R O L)) to R.
func (x *Exec) simplifyRef(r string) string {
	for k := 0; k < 6; k++ {
		// expand an abbreviation: NAME or (sref NAME)
		if d, ok := x.smt.defs[r]; ok {
			r = d
			continue
		}
		if strings.HasPrefix(r, "(sref ") && strings.HasSuffix(r, ")") {
			inner := r[len("(sref ") : len(r)-1]
			if d, ok := x.smt.defs[inner]; ok {
				r = "(sref " + d + ")"
				continue
			}
		}
		break
	}
	const p = "(sref (mk-slice "
	if strings.HasPrefix(r, p) {
		if a, ok := firstSExpr(r[len(p):]); ok {
			return x.simplifyRef(a)
		}
	}
	return r
}

// refFact: a reference read from the heap points to an allocated object, i.e. lies
// below the current allocation frontier (every stored reference was below the
// frontier when it was stored, and the frontier only grows).
func (x *Exec) refFact(t Term, ty types.Type) {
	if t == "" || x.discovering {
		return
	}
	a := x.getSV("alloc", "Int")
	switch ty.Underlying().(type) {
	case *types.Pointer:
		if x.smt.sortOf(ty) == "Slice" {
			x.smt.assume(implies(x.reach, "(and (>= (sref "+t+") 0) (< (sref "+t+") "+a+"))"))
		} else {
			x.smt.assume(implies(x.reach, "(and (>= "+t+" 0) (< "+t+" "+a+"))"))
		}
	case *types.Map, *types.Chan:
		x.smt.assume(implies(x.reach, "(and (>= "+t+" 0) (< "+t+" "+a+"))"))
	case *types.Slice:
		if !isByteSlice(ty) {
			x.smt.assume(implies(x.reach, "(and (>= (sref "+t+") 0) (< (sref "+t+") "+a+"))"))
		}
	}
}
