package main

import (
	"regexp"
	"strconv"
	"strings"
)

// isRefKeyed: state variables that are arrays indexed by a reference.
func isRefKeyed(name string) bool {
	for _, p := range []string{"H.", "Box.", "SH.", "MapD.", "MapV.", "MapN", "ChAt.", "ChWr", "ChRd", "ChClosed", "ChLen"} {
		if strings.HasPrefix(name, p) {
			return true
		}
	}
	return false
}

var bangNum = regexp.MustCompile(`!(\d+)`)

// mentionsNewer: the term mentions a name created after counter value n (i.e. a
// value computed inside the loop body during discovery).
func mentionsNewer(t string, n int) bool {
	for _, m := range bangNum.FindAllStringSubmatch(t, -1) {
		if k, err := strconv.Atoi(m[1]); err == nil && k > n {
			return true
		}
	}
	return false
}

// simplifyRef rewrites (sref (mk-slice R O L)) to R.
func simplifyRef(r string) string {
	const p = "(sref (mk-slice "
	if strings.HasPrefix(r, p) {
		if a, ok := firstSExpr(r[len(p):]); ok {
			return a
		}
	}
	return r
}
