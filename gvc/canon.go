package main

import "go/types"

// canonType removes type aliases (e.g. gdbi.Vertex = gdbi.DataElement) at every level,
// so that heap arrays, struct sorts and dynamic type ids are keyed by the real type.
func canonType(t types.Type) types.Type {
	switch u := t.(type) {
	case *types.Alias:
		return canonType(types.Unalias(u))
	case *types.Pointer:
		e := canonType(u.Elem())
		if e == u.Elem() {
			return t
		}
		return types.NewPointer(e)
	case *types.Slice:
		e := canonType(u.Elem())
		if e == u.Elem() {
			return t
		}
		return types.NewSlice(e)
	case *types.Array:
		e := canonType(u.Elem())
		if e == u.Elem() {
			return t
		}
		return types.NewArray(e, u.Len())
	case *types.Map:
		k, e := canonType(u.Key()), canonType(u.Elem())
		if k == u.Key() && e == u.Elem() {
			return t
		}
		return types.NewMap(k, e)
	case *types.Chan:
		e := canonType(u.Elem())
		if e == u.Elem() {
			return t
		}
		return types.NewChan(u.Dir(), e)
	}
	return t
}
