package main

// Symbolic executor over go/ssa: turns one function (or closure body) plus its
// contract into named proof obligations. See DESIGN.md §2.

import (
	"fmt"
	"go/constant"
	"go/token"
	"go/types"
	"sort"
	"strings"

	"golang.org/x/tools/go/ssa"
)

type LocKind int

const (
	LCell LocKind = iota
	LField
	LBox
	LElem
	LStruct
	LByte   // one byte of a byte-array cell
	LByteRO // one byte of a byte-string value (read-only)
)

type pathSel struct {
	Sort  string // struct sort
	Typ   types.Type
	Field int
}

type Loc struct {
	Kind LocKind
	SV   string
	Sort string // sort of the state variable
	Ref  Term
	Idx  Term
	Path []pathSel
	Elem types.Type // pointee type (after Path)
}

type Val struct {
	T        Term
	Loc      *Loc
	Tuple    []Val
	Fn       *ssa.Function
	Binds    []Val
	KnownLen int  // -1 unknown
	Origin   *Loc // a []byte value that views a whole local byte-array cell (read at use)
}

func tv(t Term) Val { return Val{T: t, KnownLen: -1} }

type State map[string]Term

func (s State) clone() State {
	n := make(State, len(s))
	for k, v := range s {
		n[k] = v
	}
	return n
}

type edge struct {
	cond Term
	st   State
	pred *ssa.BasicBlock
	defers []deferred
}

type deferred struct {
	call  *ssa.CallCommon
	reach Term
	instr *ssa.Defer
}

type Oblig struct {
	Name   string
	Func   string
	Kind   string // ensures | invariant | requires | safe | lemma | frame | canary
	Goal   Term   // formula that must be valid given the first NLines lines
	NLines int
	Src    string
	Pos    string
	Props  []string
	Header string // rendered lazily
	ex     *Exec
	// results
	Status  string // proved | failed | unknown
	Solver  string
	Secs    float64
	Model   string
	Output  string
	Query   string
	Canary  bool // must be refuted (vacuity guard)
	Expected bool // listed in known_findings.jsonl as a recorded defect
	FirstTry string // solver summary of the first attempt when the obligation was retried
	Anc     map[int]bool // root-function blocks whose lines are relevant (nil = all)
	Parts   []obPart     // when set, the obligation is the conjunction of these sub-goals
	Values  []string // terms whose model values are requested
}

type obPart struct {
	Goal Term
	Anc  map[int]bool
	Done bool
}

type retPoint struct {
	reach Term
	vals  []Val
	st    State
	blk   *ssa.BasicBlock
}

// ancestors: blocks of the root function from which b is reachable by forward edges.
func ancestors(b *ssa.BasicBlock) map[int]bool {
	out := map[int]bool{b.Index: true}
	stack := []*ssa.BasicBlock{b}
	for len(stack) > 0 {
		n := stack[len(stack)-1]
		stack = stack[:len(stack)-1]
		for _, p := range n.Preds {
			if isBackEdge(p, n) || out[p.Index] {
				continue
			}
			out[p.Index] = true
			stack = append(stack, p)
		}
	}
	return out
}

type Exec struct {
	V       *Verifier
	fn      *ssa.Function
	c       *Contract
	smt     *SMT
	vals    map[ssa.Value]Val
	st      State
	init    State
	svSort  map[string]string
	reach   Term
	cur     *ssa.BasicBlock
	edges   map[*ssa.BasicBlock][]edge
	done    map[*ssa.BasicBlock]bool
	headers map[*ssa.BasicBlock]int // loop header -> ordinal
	loopOf  map[*ssa.BasicBlock]map[*ssa.BasicBlock]bool
	obligs  []*Oblig
	classA  []string
	safeN   map[string]int
	defers  []deferred
	rets    []retPoint
	written map[string]bool
	discovering bool
	havocAllSeen bool
	unmodelled []string
	rename     map[string]string // root only: contract name -> today's name of the same variable (varnames.go)
	params  map[string]Val
	paramGo map[string]types.Type
	inlineDepth int
	nameSuffix  string
	callN   map[string]int
	lets    map[string]*SExpr
	stopped bool
	fvKnown map[string]int
	iterSV  map[*ssa.Range]string
	spawned []*ssa.Go
	entryReach Term
	parent  *Exec
	lemmaName string
	initDepth int
	outerEnv  *SpecEnv
	refWrites map[string]map[string]bool // during loop discovery: heap array -> refs it is updated at ("*" = unknown)
	freshRefs map[string]bool            // during loop discovery: reference terms allocated inside the loop
	loopRefs  map[string][]Term          // result of the last discovery: per heap array, the loop-invariant refs written
	nameSeen     map[string]int
	loopBase     int // closures inlined into their parent: loop ordinals are offset by 100*closure index
	lastIter     string // state variable of the visited set of the most recent map iteration
	lastIterSort string
}

func (x *Exec) markA(reason string) {
	for _, r := range x.classA {
		if r == reason {
			return
		}
	}
	x.classA = append(x.classA, reason)
}

func (x *Exec) pos(p token.Pos) string {
	if !p.IsValid() {
		return ""
	}
	ps := x.fn.Prog.Fset.Position(p)
	return fmt.Sprintf("%s:%d", strings.TrimPrefix(ps.Filename, x.V.Repo+"/"), ps.Line)
}

// ---- state variables --------------------------------------------------------

func (x *Exec) getSV(name, sortName string) Term {
	if t, ok := x.st[name]; ok {
		return t
	}
	if t, ok := x.init[name]; ok {
		x.st[name] = t
		return t
	}
	c := smtName(name + "!0")
	if !x.smt.declared[c] {
		x.smt.declared[c] = true
		x.smt.emit(fmt.Sprintf("(declare-const %s %s)", c, sortName))
		if name == "alloc" {
			x.smt.assume("(>= " + c + " 1)")
		}
	}
	x.svSort[name] = sortName
	x.init[name] = c
	x.st[name] = c
	return c
}

func (x *Exec) setSV(name, sortName string, t Term) {
	cur := x.getSV(name, sortName) // make sure the initial version exists (for old())
	x.written[name] = true
	// remember at which reference a heap array is updated (used to frame loops):
	// an update has the shape (store <current> <ref> <row>)
	if x.refWrites != nil {
		ref := "*"
		if p := "(store " + cur + " "; strings.HasPrefix(t, p) {
			if r, ok := firstSExpr(t[len(p):]); ok {
				ref = x.simplifyRef(r)
			}
		}
		if x.refWrites[name] == nil {
			x.refWrites[name] = map[string]bool{}
		}
		x.refWrites[name][ref] = true
	}
	x.st[name] = x.smt.define(name, sortName, t)
}

// firstSExpr returns the first s-expression (atom or balanced list) of s.
func firstSExpr(s string) (string, bool) {
	if s == "" {
		return "", false
	}
	if s[0] != '(' {
		i := strings.IndexAny(s, " )")
		if i <= 0 {
			return "", false
		}
		return s[:i], true
	}
	d := 0
	for i := 0; i < len(s); i++ {
		switch s[i] {
		case '(':
			d++
		case ')':
			d--
			if d == 0 {
				return s[:i+1], true
			}
		case '|':
			j := strings.IndexByte(s[i+1:], '|')
			if j < 0 {
				return "", false
			}
			i += j + 1
		}
	}
	return "", false
}

func (x *Exec) havocSV(name string) {
	sortName := x.svSort[name]
	if sortName == "" {
		return
	}
	old := x.getSV(name, sortName)
	nt := x.smt.fresh(name, sortName)
	if name == "alloc" {
		x.smt.assume("(>= " + nt + " " + old + ")")
	}
	if sortName == "Slice" && name != "alloc" {
		// a slice-valued variable: its backing array is an allocated object
		if a, ok := x.st["alloc"]; ok {
			x.smt.assume("(and (>= (sref " + nt + ") 0) (< (sref " + nt + ") " + a + ") (>= (slen " + nt + ") 0) (>= (soff " + nt + ") 0))")
		}
	}
	x.written[name] = true
	if x.refWrites != nil {
		if x.refWrites[name] == nil {
			x.refWrites[name] = map[string]bool{}
		}
		x.refWrites[name]["*"] = true
	}
	x.st[name] = nt
}

// havocAtRefs: the loop body updates the heap array 'name' only at the given
// loop-invariant references and at references allocated inside the loop; every other
// reference that existed at loop entry keeps its row.
func (x *Exec) havocAtRefs(name string, refs []Term, allocEntry Term) {
	sortName := x.svSort[name]
	if sortName == "" {
		return
	}
	old := x.getSV(name, sortName)
	nt := x.smt.fresh(name, sortName)
	conds := []Term{"(< r " + allocEntry + ")"}
	for _, r := range refs {
		conds = append(conds, "(not (= r "+r+"))")
	}
	x.smt.assume(fmt.Sprintf("(forall ((r Int)) (! (=> %s (= (select %s r) (select %s r))) :pattern ((select %s r))))", and(conds...), nt, old, nt))
	x.written[name] = true
	if x.refWrites != nil {
		if x.refWrites[name] == nil {
			x.refWrites[name] = map[string]bool{}
		}
		for _, r := range refs {
			x.refWrites[name][r] = true
		}
		x.refWrites[name]["fresh"] = true
	}
	x.st[name] = nt
}

// havocMatching havocs every known state variable whose name has one of the prefixes.
func (x *Exec) havocMatching(prefixes []string) {
	var names []string
	for n := range x.svSort {
		names = append(names, n)
	}
	sort.Strings(names)
	for _, n := range names {
		for _, p := range prefixes {
			if p == "*" && !strings.HasPrefix(n, "cell.") && !strings.HasPrefix(n, "fv.") || p != "*" && strings.HasPrefix(n, p) {
				x.havocSV(n)
				break
			}
		}
	}
}

func (x *Exec) newRef() Term {
	r := x.getSV("alloc", "Int")
	x.setSV("alloc", "Int", "(+ "+r+" 1)")
	if x.freshRefs != nil {
		x.freshRefs[r] = true
	}
	return r
}

// ---- locations --------------------------------------------------------------

// heapWF: in the entry state every reference stored in a heap array points to an
// allocated object (lies below the entry allocation frontier). Emitted once per array.
func (x *Exec) heapWF(l *Loc) {
	if l.Elem == nil || len(l.Path) > 0 || (l.Kind != LField && l.Kind != LBox && l.Kind != LElem) {
		return
	}
	key := "wf:" + l.SV
	if x.smt.declared[key] {
		return
	}
	x.smt.declared[key] = true
	x.getSV(l.SV, l.Sort)
	h0 := x.init[l.SV]
	a0 := x.init["alloc"]
	if h0 == "" || a0 == "" {
		return
	}
	var body string
	sel := "(select " + h0 + " r)"
	vars := "((r Int))"
	if l.Kind == LElem {
		sel = "(select (select " + h0 + " r) i)"
		vars = "((r Int) (i Int))"
	}
	switch l.Elem.Underlying().(type) {
	case *types.Pointer, *types.Map, *types.Chan:
		if x.smt.sortOf(l.Elem) == "Slice" {
			body = "(and (>= (sref " + sel + ") 0) (< (sref " + sel + ") " + a0 + "))"
		} else {
			body = "(and (>= " + sel + " 0) (< " + sel + " " + a0 + "))"
		}
	case *types.Slice:
		if isByteSlice(l.Elem) {
			return
		}
		body = "(and (>= (sref " + sel + ") 0) (< (sref " + sel + ") " + a0 + ") (>= (slen " + sel + ") 0) (>= (soff " + sel + ") 0))"
	case *types.Basic:
		// unsigned integers are non-negative (and within their type's range)
		lo, hi, ok := intRange(l.Elem)
		if !ok || lo != "0" {
			return
		}
		body = "(and (<= 0 " + sel + ") (<= " + sel + " " + hi + "))"
	default:
		return
	}
	saved := x.smt.curOwner
	x.smt.curOwner = -1
	x.smt.assume("(forall " + vars + " (! " + body + " :pattern (" + sel + ")))")
	x.smt.curOwner = saved
}

func (x *Exec) readLoc(l *Loc) Term {
	x.heapWF(l)
	var base Term
	switch l.Kind {
	case LCell:
		base = x.getSV(l.SV, l.Sort)
	case LField, LBox:
		base = "(select " + x.getSV(l.SV, l.Sort) + " " + l.Ref + ")"
	case LElem:
		base = "(select (select " + x.getSV(l.SV, l.Sort) + " " + l.Ref + ") " + l.Idx + ")"
	case LStruct:
		return x.readStruct(l.Ref, l.Elem)
	case LByte:
		return "(bget " + x.getSV(l.SV, l.Sort) + " " + l.Idx + ")"
	case LByteRO:
		return "(bget " + l.Ref + " " + l.Idx + ")"
	}
	for _, p := range l.Path {
		u := p.Typ.Underlying().(*types.Struct)
		base = "(" + x.smt.fieldSel(p.Sort, u.Field(p.Field).Name(), p.Field) + " " + base + ")"
	}
	return base
}

func (x *Exec) writeLoc(l *Loc, v Term) {
	if l.Kind == LStruct {
		x.writeStruct(l.Ref, l.Elem, v)
		return
	}
	if l.Kind == LByte {
		x.setSV(l.SV, l.Sort, "(bset "+x.getSV(l.SV, l.Sort)+" "+l.Idx+" "+v+")")
		return
	}
	if l.Kind == LByteRO {
		x.markA("store into an element of a byte-string value")
		return
	}
	// rebuild nested struct value along the path
	if len(l.Path) > 0 {
		outer := *l
		outer.Path = nil
		cur := x.readLoc(&outer)
		v = x.updatePath(cur, l.Path, v)
	}
	switch l.Kind {
	case LCell:
		x.setSV(l.SV, l.Sort, v)
	case LField, LBox:
		x.setSV(l.SV, l.Sort, "(store "+x.getSV(l.SV, l.Sort)+" "+l.Ref+" "+v+")")
	case LElem:
		h := x.getSV(l.SV, l.Sort)
		x.setSV(l.SV, l.Sort, "(store "+h+" "+l.Ref+" (store (select "+h+" "+l.Ref+") "+l.Idx+" "+v+"))")
	}
}

func (x *Exec) updatePath(cur Term, path []pathSel, v Term) Term {
	p := path[0]
	u := p.Typ.Underlying().(*types.Struct)
	var args []string
	for i := 0; i < u.NumFields(); i++ {
		sel := "(" + x.smt.fieldSel(p.Sort, u.Field(i).Name(), i) + " " + cur + ")"
		if i == p.Field {
			if len(path) > 1 {
				args = append(args, x.updatePath(sel, path[1:], v))
			} else {
				args = append(args, v)
			}
		} else {
			args = append(args, sel)
		}
	}
	return "(" + ctorName(p.Sort) + " " + strings.Join(args, " ") + ")"
}

func fieldSV(t types.Type, u *types.Struct, i int) string {
	return "H." + shortType(canonType(t).String()) + "." + u.Field(i).Name()
}

func (x *Exec) fieldLoc(ref Term, st types.Type, i int) *Loc {
	u := st.Underlying().(*types.Struct)
	ft := u.Field(i).Type()
	return &Loc{Kind: LField, SV: fieldSV(st, u, i), Sort: "(Array Int " + x.smt.sortOf(ft) + ")", Ref: ref, Elem: ft}
}

func (x *Exec) readStruct(ref Term, st types.Type) Term {
	u := st.Underlying().(*types.Struct)
	name := x.smt.structSort(st, u)
	if u.NumFields() == 0 {
		return ctorName(name)
	}
	var args []string
	for i := 0; i < u.NumFields(); i++ {
		args = append(args, x.readLoc(x.fieldLoc(ref, st, i)))
	}
	return "(" + ctorName(name) + " " + strings.Join(args, " ") + ")"
}

func (x *Exec) writeStruct(ref Term, st types.Type, v Term) {
	u := st.Underlying().(*types.Struct)
	name := x.smt.structSort(st, u)
	v = x.smt.define("sv", name, v)
	for i := 0; i < u.NumFields(); i++ {
		x.writeLoc(x.fieldLoc(ref, st, i), "("+x.smt.fieldSel(name, u.Field(i).Name(), i)+" "+v+")")
	}
}

// locOf interprets a pointer-typed value as a location.
func (x *Exec) locOf(v Val, ptrType types.Type) *Loc {
	if v.Loc != nil {
		return v.Loc
	}
	pt, ok := ptrType.Underlying().(*types.Pointer)
	if !ok {
		x.markA("locOf: non-pointer " + ptrType.String())
		return &Loc{Kind: LCell, SV: "cell.junk", Sort: "Int", Elem: ptrType}
	}
	el := pt.Elem()
	if _, ok := el.Underlying().(*types.Struct); ok {
		return &Loc{Kind: LStruct, Ref: v.T, Elem: el}
	}
	so := x.smt.sortOf(el)
	return &Loc{Kind: LBox, SV: "Box." + sortTag(so), Sort: "(Array Int " + so + ")", Ref: v.T, Elem: el}
}

func sortTag(so string) string {
	return strings.Trim(so, "|")
}

// termOf converts a value to an SMT term (pointer locations become refs where possible).
func (x *Exec) termOf(v Val) Term {
	if v.Loc != nil {
		switch v.Loc.Kind {
		case LStruct, LBox:
			if len(v.Loc.Path) == 0 {
				return v.Loc.Ref
			}
		}
		x.markA("interior or cell pointer used as a value")
		return x.smt.fresh("ptr", "Int")
	}
	if v.Origin != nil {
		// a []byte view of a whole local byte array: its current contents
		return x.readLoc(v.Origin)
	}
	if v.T == "" {
		if v.Fn != nil {
			return intLit(int64(x.smt.typeID("func:" + v.Fn.String())))
		}
		return "0"
	}
	return v.T
}

// ---- values -------------------------------------------------------------------

func (x *Exec) constVal(c *ssa.Const) Val {
	t := c.Type()
	if c.Value == nil {
		return tv(x.smt.zero(t))
	}
	switch x.smt.sortOf(t) {
	case "Bool":
		if constant.BoolVal(c.Value) {
			return tv("true")
		}
		return tv("false")
	case "Int":
		if v, ok := constant.Int64Val(constant.ToInt(c.Value)); ok {
			return tv(intLit(v))
		}
		if v, ok := constant.Uint64Val(constant.ToInt(c.Value)); ok {
			return tv(fmt.Sprintf("%d", v))
		}
		return tv(c.Value.ExactString())
	case "F64":
		f, _ := constant.Float64Val(c.Value)
		return tv(floatLit(f))
	case "Str":
		return tv(x.smt.strLit(constant.StringVal(c.Value)))
	case "Any":
		return tv("ANil")
	}
	return tv(x.smt.zero(t))
}

func (x *Exec) val(v ssa.Value) Val {
	switch v := v.(type) {
	case *ssa.Const:
		return x.constVal(v)
	case *ssa.Function:
		return Val{Fn: v, KnownLen: -1}
	case *ssa.Builtin:
		return Val{KnownLen: -1}
	case *ssa.Global:
		el := v.Type().(*types.Pointer).Elem()
		name := "G." + shortType(v.Pkg.Pkg.Path()) + "." + v.Name()
		if _, ok := el.Underlying().(*types.Struct); ok {
			// a global struct: give it a fixed pseudo reference
			return tv(intLit(int64(-x.smt.typeID("global:" + name))))
		}
		return Val{Loc: &Loc{Kind: LCell, SV: name, Sort: x.smt.sortOf(el), Elem: el}, KnownLen: -1}
	}
	if r, ok := x.vals[v]; ok {
		return r
	}
	// not yet defined (e.g. value from an unprocessed block): havoc
	x.markA("use of undefined value " + v.Name())
	r := tv(x.smt.fresh("undef", x.smt.sortOf(v.Type())))
	x.vals[v] = r
	return r
}

func (x *Exec) bind(v ssa.Value, r Val) {
	if r.T != "" && r.Loc == nil {
		so := x.smt.sortOf(v.Type())
		r.T = x.smt.define(x.vname(v), so, r.T)
	}
	x.vals[v] = r
}

func (x *Exec) vname(v ssa.Value) string {
	return "v." + v.Name() + x.nameSuffix
}

// ---- obligations ------------------------------------------------------------

func (x *Exec) oblige(kind, name string, hyp, goal Term, src string, p token.Pos) *Oblig {
	if x.discovering {
		return nil
	}
	full := x.V.funcKey(x.fn) + "#" + name
	// obligation names are unique within a function: a second obligation of the same
	// name (e.g. an invariant preserved along a second back edge) gets an ordinal
	root := x.root()
	if root.nameSeen == nil {
		root.nameSeen = map[string]int{}
	}
	root.nameSeen[full]++
	if n := root.nameSeen[full]; n > 1 {
		full = fmt.Sprintf("%s:%d", full, n)
	}
	o := &Oblig{Name: full, Func: x.V.funcKey(x.fn), Kind: kind, Goal: implies(hyp, goal), NLines: len(x.smt.lines), Src: src, Pos: x.pos(p), ex: x}
	if rc := x.root().cur; rc != nil {
		o.Anc = ancestors(rc)
	}
	if x.c != nil {
		o.Props = x.c.Props
	}
	x.obligs = append(x.obligs, o)
	// after asserting, the fact may be assumed
	x.smt.assume(implies(hyp, goal))
	return o
}

func (x *Exec) safe(kind, what string, cond Term, p token.Pos) {
	if x.discovering {
		return
	}
	if x.c == nil || !x.c.NoPanic {
		// no safety obligation requested: execution continues past this point only
		// if the operation did not panic (partial correctness)
		if cond != "true" {
			x.smt.assume(implies(x.reach, cond))
		}
		return
	}
	if cond == "true" {
		return
	}
	key := kind + ":" + what
	x.safeN[key]++
	name := fmt.Sprintf("safe:%s:%s:%d", kind, what, x.safeN[key])
	x.oblige("safe", name, x.reach, cond, kind+" "+what, p)
}

// ---- CFG helpers -------------------------------------------------------------

func (x *Exec) analyseLoops() bool {
	fn := x.fn
	x.headers = map[*ssa.BasicBlock]int{}
	x.loopOf = map[*ssa.BasicBlock]map[*ssa.BasicBlock]bool{}
	var hs []*ssa.BasicBlock
	for _, b := range fn.Blocks {
		for _, s := range b.Succs {
			if s.Dominates(b) { // back edge b -> s
				if _, ok := x.loopOf[s]; !ok {
					x.loopOf[s] = map[*ssa.BasicBlock]bool{s: true}
					hs = append(hs, s)
				}
				// natural loop body: nodes reaching b without passing s
				body := x.loopOf[s]
				var stack []*ssa.BasicBlock
				if !body[b] {
					body[b] = true
					stack = append(stack, b)
				}
				for len(stack) > 0 {
					n := stack[len(stack)-1]
					stack = stack[:len(stack)-1]
					for _, p := range n.Preds {
						if !body[p] {
							body[p] = true
							stack = append(stack, p)
						}
					}
				}
			}
		}
	}
	sort.Slice(hs, func(i, j int) bool { return hs[i].Index < hs[j].Index })
	for i, h := range hs {
		x.headers[h] = i + 1
	}
	return true
}

func isBackEdge(from, to *ssa.BasicBlock) bool { return to.Dominates(from) }

// rpo returns blocks in reverse postorder over forward edges only.
func rpo(fn *ssa.Function, within map[*ssa.BasicBlock]bool, start *ssa.BasicBlock) []*ssa.BasicBlock {
	seen := map[*ssa.BasicBlock]bool{}
	var post []*ssa.BasicBlock
	var dfs func(b *ssa.BasicBlock)
	dfs = func(b *ssa.BasicBlock) {
		seen[b] = true
		for _, s := range b.Succs {
			if isBackEdge(b, s) || seen[s] {
				continue
			}
			if within != nil && !within[s] {
				continue
			}
			dfs(s)
		}
		post = append(post, b)
	}
	dfs(start)
	for i, j := 0, len(post)-1; i < j; i, j = i+1, j-1 {
		post[i], post[j] = post[j], post[i]
	}
	return post
}

// ---- merging ---------------------------------------------------------------

func (x *Exec) mergeStates(es []edge) State {
	if len(es) == 1 {
		return es[0].st.clone()
	}
	keys := map[string]bool{}
	for _, e := range es {
		for k := range e.st {
			keys[k] = true
		}
	}
	var ks []string
	for k := range keys {
		ks = append(ks, k)
	}
	sort.Strings(ks)
	out := State{}
	for _, k := range ks {
		get := func(e edge) Term {
			if t, ok := e.st[k]; ok {
				return t
			}
			if x.init[k] == "" && x.svSort[k] != "" {
				// a local cell of an inlined callee that only exists along some of the
				// joining paths: its value on the others is arbitrary
				x.init[k] = x.smt.fresh(k, x.svSort[k])
			}
			return x.init[k]
		}
		t := get(es[len(es)-1])
		same := true
		for _, e := range es {
			if get(e) != t {
				same = false
			}
		}
		if same {
			out[k] = t
			continue
		}
		for i := len(es) - 2; i >= 0; i-- {
			t = ite(es[i].cond, get(es[i]), t)
		}
		out[k] = x.smt.define(k, x.svSort[k], t)
	}
	return out
}

func (x *Exec) mergeVals(es []edge, vs []Val, so string, name string) Val {
	// pointer locations: all must agree structurally
	if vs[0].Loc != nil || vs[0].Fn != nil || len(vs[0].Tuple) > 0 {
		allSame := true
		for _, v := range vs {
			if v.Loc == nil || vs[0].Loc == nil || *v.Loc.cmpKey() != *vs[0].Loc.cmpKey() {
				allSame = false
			}
		}
		if allSame {
			return vs[0]
		}
		if vs[0].Loc != nil {
			// merge refs of same-kind locations
			ok := true
			for _, v := range vs {
				if v.Loc == nil || v.Loc.Kind != vs[0].Loc.Kind || v.Loc.SV != vs[0].Loc.SV || len(v.Loc.Path) != 0 || v.Loc.Kind == LCell {
					ok = false
				}
			}
			if ok {
				l := *vs[0].Loc
				ref := vs[len(vs)-1].Loc.Ref
				idx := vs[len(vs)-1].Loc.Idx
				for i := len(vs) - 2; i >= 0; i-- {
					ref = ite(es[i].cond, vs[i].Loc.Ref, ref)
					if l.Kind == LElem {
						idx = ite(es[i].cond, vs[i].Loc.Idx, idx)
					}
				}
				l.Ref, l.Idx = ref, idx
				return Val{Loc: &l, KnownLen: -1}
			}
		}
		if vs[0].Fn != nil {
			same := true
			for _, v := range vs {
				if v.Fn != vs[0].Fn {
					same = false
				}
			}
			if same {
				return vs[0]
			}
		}
		x.markA("phi over heterogeneous pointer/function values")
		return tv(x.smt.fresh("phi", so))
	}
	t := x.termOf(vs[len(vs)-1])
	kl := vs[len(vs)-1].KnownLen
	for i := len(vs) - 2; i >= 0; i-- {
		t = ite(es[i].cond, x.termOf(vs[i]), t)
		if vs[i].KnownLen != kl {
			kl = -1
		}
	}
	return Val{T: x.smt.define(name, so, t), KnownLen: kl}
}

func (l *Loc) cmpKey() *string {
	s := fmt.Sprintf("%d|%s|%s|%s|%v", l.Kind, l.SV, l.Ref, l.Idx, l.Path)
	return &s
}

// ---- main loop --------------------------------------------------------------

func (x *Exec) runBlocks(order []*ssa.BasicBlock, within map[*ssa.BasicBlock]bool) {
	for _, b := range order {
		if x.stopped {
			return
		}
		if !x.enterBlock(b, within) {
			continue
		}
		for _, ins := range b.Instrs {
			x.step(ins, within)
		}
		x.done[b] = true
	}
}

// enterBlock sets up reach/state/phis; false when the block is unreachable.
func (x *Exec) enterBlock(b *ssa.BasicBlock, within map[*ssa.BasicBlock]bool) bool {
	x.cur = b
	if x.parent == nil {
		x.smt.curOwner = b.Index
	}
	es := x.edges[b]
	if b == x.fn.Blocks[0] && within == nil {
		x.reach = x.entryReach
		if x.parent == nil {
			x.st = x.init.clone()
		}
		return true
	}
	if len(es) == 0 {
		return false
	}
	ord, isHeader := x.headers[b]
	var conds []Term
	for _, e := range es {
		conds = append(conds, e.cond)
	}
	entryReach := x.smt.define(fmt.Sprintf("R.b%d%s", b.Index, x.nameSuffix), "Bool", or(conds...))
	x.st = x.mergeStates(es)
	x.defers = es[0].defers
	x.reach = entryReach
	// phis on entry edges
	phiVals := map[*ssa.Phi]Val{}
	for _, ins := range b.Instrs {
		phi, ok := ins.(*ssa.Phi)
		if !ok {
			break
		}
		var vs []Val
		for _, e := range es {
			idx := predIndex(b, e.pred)
			vs = append(vs, x.val(phi.Edges[idx]))
		}
		phiVals[phi] = x.mergeVals(es, vs, x.smt.sortOf(phi.Type()), x.vname(phi))
	}
	if !isHeader {
		for phi, v := range phiVals {
			x.vals[phi] = v
		}
		return true
	}
	// ---- loop header ----
	invs := x.loopInvs(ord)
	// 1. invariants on entry
	for phi, v := range phiVals {
		x.vals[phi] = v
	}
	for _, inv := range invs {
		t, err := x.evalSpec(inv.E, x.specEnvAt(b, nil))
		if err != nil {
			x.specError(inv, err)
			continue
		}
		x.oblige("invariant", fmt.Sprintf("invariant:%d:%s:entry", x.loopBase+ord, inv.Name), entryReach, t, inv.Src, b.Instrs[0].Pos())
	}
	// 2. havoc
	mods := x.loopModified(b, ord)
	allocEntry := x.getSV("alloc", "Int")
	for _, m := range mods {
		if refs, ok := x.loopRefs[m]; ok {
			x.havocAtRefs(m, refs, allocEntry)
		} else {
			x.havocSV(m)
		}
	}
	for _, ins := range b.Instrs {
		phi, ok := ins.(*ssa.Phi)
		if !ok {
			break
		}
		pv := phiVals[phi]
		if pv.Loc != nil || pv.Fn != nil {
			continue // loop-invariant pointer
		}
		so := x.smt.sortOf(phi.Type())
		name := phi.Comment
		if name == "" {
			name = phi.Name()
		}
		x.vals[phi] = tv(x.smt.fresh("phi."+name+x.nameSuffix, so))
		x.typeFacts(x.vals[phi].T, phi.Type())
	}
	// 3. assume loop-level definitional axioms, then the invariants
	if x.c != nil {
		for _, ax := range x.c.LoopAxioms[x.loopBase+ord] {
			t, err := x.evalSpec(ax.E, x.specEnvAt(b, nil))
			if err != nil {
				x.specError(ax, err)
				continue
			}
			x.smt.assume(implies(x.reach, t))
			x.V.noteAssumed("definitional axiom " + x.c.Name + ":" + ax.Name + " — " + ax.Src)
		}
	}
	for _, inv := range invs {
		t, err := x.evalSpec(inv.E, x.specEnvAt(b, nil))
		if err != nil {
			continue
		}
		x.smt.assume(implies(x.reach, t))
	}
	return true
}

func predIndex(b, p *ssa.BasicBlock) int {
	for i, q := range b.Preds {
		if q == p {
			return i
		}
	}
	return 0
}

var autoRangeInv = func() NamedExpr {
	e, _ := parseSpec("rangeindex >= 0 - 1")
	return NamedExpr{Name: "auto_rangeindex", Src: "rangeindex >= -1 (generated for range loops)", E: e}
}()

func (x *Exec) loopInvs(ord int) []NamedExpr {
	if x.c == nil {
		return nil
	}
	invs := x.c.Loops[x.loopBase+ord]
	// generated invariant for 'for i := range slice' loops: the hidden index starts at -1
	for h, o := range x.headers {
		if o != ord {
			continue
		}
		for _, ins := range h.Instrs {
			phi, ok := ins.(*ssa.Phi)
			if !ok {
				break
			}
			if phi.Comment == "rangeindex" {
				invs = append([]NamedExpr{autoRangeInv}, invs...)
			}
		}
	}
	return invs
}

// loopModified discovers which state variables the loop body may write, by a
// throw-away symbolic execution of the body (nothing it emits is kept).
func (x *Exec) loopModified(h *ssa.BasicBlock, ord int) []string {
	x.loopRefs = nil
	if x.c != nil && len(x.c.LoopMods[x.loopBase+ord]) > 0 {
		var out []string
		for n := range x.svSort {
			for _, p := range x.c.LoopMods[x.loopBase+ord] {
				if strings.HasPrefix(n, p) {
					out = append(out, n)
				}
			}
		}
		sort.Strings(out)
		return out
	}
	// save
	savedLines := len(x.smt.lines)
	savedOwner := x.smt.curOwner
	savedFresh := x.smt.nfresh
	savedVals := x.vals
	savedSt := x.st
	savedEdges := x.edges
	savedDone := x.done
	savedWritten := x.written
	savedObl := len(x.obligs)
	savedDisc := x.discovering
	savedReach := x.reach
	savedCur := x.cur
	savedDefers := x.defers
	savedRets := len(x.rets)
	savedA := len(x.classA)
	savedSafe := x.safeN
	savedCallN := x.callN
	savedDeclared := map[string]bool{}
	for k, v := range x.smt.declared {
		savedDeclared[k] = v
	}
	savedInit := x.init.clone()
	savedSort := map[string]string{}
	for k, v := range x.svSort {
		savedSort[k] = v
	}

	x.vals = map[ssa.Value]Val{}
	for k, v := range savedVals {
		x.vals[k] = v
	}
	x.st = savedSt.clone()
	x.edges = map[*ssa.BasicBlock][]edge{}
	x.done = map[*ssa.BasicBlock]bool{}
	x.written = map[string]bool{}
	savedRW, savedFR := x.refWrites, x.freshRefs
	x.refWrites = map[string]map[string]bool{}
	x.freshRefs = map[string]bool{}
	x.discovering = true
	x.safeN = map[string]int{}
	x.callN = map[string]int{}
	body := x.loopOf[h]
	// process header with fresh phis
	for _, ins := range h.Instrs {
		if phi, ok := ins.(*ssa.Phi); ok {
			pv := x.vals[phi]
			if pv.Loc == nil && pv.Fn == nil {
				x.vals[phi] = tv(x.smt.fresh("dphi", x.smt.sortOf(phi.Type())))
			}
		}
	}
	x.cur = h
	for _, ins := range h.Instrs {
		if _, ok := ins.(*ssa.Phi); ok {
			continue
		}
		x.step(ins, body)
	}
	x.done[h] = true
	order := rpo(x.fn, body, h)
	x.runBlocks(order[1:], body)
	var out []string
	for n := range x.written {
		out = append(out, n)
	}
	sort.Strings(out)
	// per heap array: is it written only at loop-invariant references and at
	// references allocated inside the loop?
	x.loopRefs = map[string][]Term{}
	for _, n := range out {
		if !isRefKeyed(n) {
			continue
		}
		refs := x.refWrites[n]
		ok := len(refs) > 0
		var inv []Term
		for r := range refs {
			switch {
			case r == "*":
				ok = false
			case r == "fresh" || x.freshRefs[r]:
			case mentionsNewer(r, savedFresh):
				ok = false
			default:
				inv = append(inv, r)
			}
		}
		if ok {
			sort.Strings(inv)
			x.loopRefs[n] = inv
		}
	}
	x.refWrites, x.freshRefs = savedRW, savedFR
	// new state variables first touched inside the loop must also be known outside
	newSorts := map[string]string{}
	for k, v := range x.svSort {
		newSorts[k] = v
	}
	// restore
	x.smt.lines = x.smt.lines[:savedLines]
	x.smt.owners = x.smt.owners[:savedLines]
	x.smt.curOwner = savedOwner
	x.smt.nfresh = savedFresh
	x.smt.declared = savedDeclared
	x.vals = savedVals
	x.st = savedSt
	x.edges = savedEdges
	x.done = savedDone
	x.written = savedWritten
	x.obligs = x.obligs[:savedObl]
	x.discovering = savedDisc
	x.reach = savedReach
	x.cur = savedCur
	x.defers = savedDefers
	x.rets = x.rets[:savedRets]
	x.classA = x.classA[:savedA]
	x.safeN = savedSafe
	x.callN = savedCallN
	x.init = savedInit
	// the sort table is shared with the enclosing and the inlined executions: restore
	// it in place
	for k := range x.svSort {
		if _, ok := savedSort[k]; !ok {
			delete(x.svSort, k)
		}
	}
	for _, n := range out {
		if _, ok := x.svSort[n]; !ok {
			x.getSV(n, newSorts[n])
		}
	}
	return out
}

// typeFacts adds range facts for freshly introduced values of unsigned type.
func (x *Exec) typeFacts(t Term, ty types.Type) {
	if b, ok := ty.Underlying().(*types.Basic); ok && b.Info()&types.IsUnsigned != 0 {
		x.smt.assume("(>= " + t + " 0)")
	}
	if _, ok := ty.Underlying().(*types.Slice); ok && !isByteSlice(ty) {
		x.smt.assume("(and (>= (slen " + t + ") 0) (>= (soff " + t + ") 0))")
	}
	// every reference value in the model lies below the allocation frontier
	x.refFact(t, ty)
}

func (x *Exec) pushEdge(to *ssa.BasicBlock, cond Term, within map[*ssa.BasicBlock]bool) {
	from := x.cur
	if isBackEdge(from, to) {
		if x.discovering {
			return
		}
		ord := x.headers[to]
		// invariants preserved along this back edge
		saved := map[*ssa.Phi]Val{}
		for _, ins := range to.Instrs {
			phi, ok := ins.(*ssa.Phi)
			if !ok {
				break
			}
			saved[phi] = x.vals[phi]
			x.vals[phi] = x.val(phi.Edges[predIndex(to, from)])
		}
		for _, inv := range x.loopInvs(ord) {
			t, err := x.evalSpec(inv.E, x.specEnvAt(to, nil))
			if err != nil {
				x.specError(inv, err)
				continue
			}
			x.oblige("invariant", fmt.Sprintf("invariant:%d:%s:preserved", x.loopBase+ord, inv.Name), cond, t, inv.Src, from.Instrs[len(from.Instrs)-1].Pos())
		}
		for phi, v := range saved {
			x.vals[phi] = v
		}
		return
	}
	if within != nil && !within[to] {
		return
	}
	x.edges[to] = append(x.edges[to], edge{cond: cond, st: x.st.clone(), pred: from, defers: x.defers})
}

// specError: a contract clause could not be evaluated against the current code (a
// variable it names no longer exists, a type changed, ...). Never a silent skip: it
// becomes one failed obligation per clause.
func (x *Exec) specError(ne NamedExpr, err error) {
	if x.discovering {
		return
	}
	root := x.root()
	fk := x.V.funcKey(root.fn)
	if root.fn == nil {
		fk = root.lemmaName
	}
	msg := fmt.Sprintf("%s: %s: %v", fk, ne.Name, err)
	for _, e := range x.V.specErrors {
		if e == msg {
			return
		}
	}
	x.V.specErrors = append(x.V.specErrors, msg)
	o := &Oblig{Name: fk + "#contract:" + ne.Name, Func: fk, Kind: "contract", Status: "failed", Src: ne.Src,
		Output: "contract clause cannot be evaluated against the current code: " + err.Error()}
	if root.c != nil {
		o.Props = root.c.Props
	}
	root.obligs = append(root.obligs, o)
}
