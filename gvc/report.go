package main

import (
	"encoding/json"
	"fmt"
	"os"
	"path/filepath"
	"sort"
	"strings"
	"time"
)

func (v *Verifier) report(prop, tier string, seed int, reps []*FuncReport, obs, canaries []*Oblig, t0 time.Time, tLoad, tGen float64, verbose bool, scratch string) int {
	known := loadKnown(v.VerifDir)
	knownBy := map[string]KnownFinding{}
	for _, k := range known {
		// a recorded finding is keyed by its obligation; a function under contract for
		// several properties raises the same obligation in each of their checks
		if k.Status == "known" {
			knownBy[k.Obligation] = k
		}
	}
	os.MkdirAll(filepath.Join(v.outDir(), "replays"), 0o755)

	nObl, nProved := 0, 0
	bySolver := map[string]int{}
	solverSecs := 0.0
	var failed []*Oblig
	var knownHit []string
	var samples []map[string]interface{}
	for _, o := range obs {
		nObl++
		solverSecs += o.Secs
		if o.Status == "proved" {
			nProved++
			bySolver[o.Solver]++
			if len(samples) < 6 {
				samples = append(samples, map[string]interface{}{"obligation": o.Name, "kind": o.Kind, "clause": o.Src, "result": "unsat (valid)", "solver": o.Solver, "secs": round3(o.Secs), "pos": o.Pos})
			}
			continue
		}
		failed = append(failed, o)
	}
	// vacuity: canaries must be refutable (sat); unsat means contradictory assumptions
	var vacuous []string
	canaryOK := 0
	for _, c := range canaries {
		switch c.Status {
		case "failed": // goal 'unreachable' refuted: the return is reachable
			canaryOK++
		case "proved":
			vacuous = append(vacuous, c.Name)
		}
	}
	violations := 0
	exit := 0
	var lines []string
	for _, o := range failed {
		if k, ok := knownBy[o.Name]; ok {
			knownHit = append(knownHit, o.Name)
			lines = append(lines, fmt.Sprintf("KNOWN-FINDING: property=%s %s: %s", prop, o.Name, k.What))
			continue
		}
		violations++
		exit = 1
		path, found := v.writeReplay(prop, o, scratch)
		suffix := ""
		if !found {
			suffix = " no-failing-input-found"
		}
		fmt.Printf("gvc: obligation %s %s (%s) at %s: %s\n", o.Name, o.Status, o.Output, o.Pos, o.Src)
		lines = append(lines, fmt.Sprintf("VIOLATION property=%s replay=%s%s", prop, path, suffix))
	}
	for _, vn := range vacuous {
		violations++
		exit = 1
		path := filepath.Join(v.outDir(), "replays", prop+"-"+sanitizeFile(vn)+".json")
		writeJSON(path, map[string]interface{}{"property": prop, "obligation": vn, "kind": "no-failing-input-found",
			"reason": "vacuity guard: the assumptions of this function (preconditions, assumed callee contracts, axioms) are contradictory, so every obligation would pass"})
		lines = append(lines, fmt.Sprintf("VIOLATION property=%s replay=%s no-failing-input-found", prop, path))
	}
	if len(v.specErrors) > 0 {
		for _, e := range v.specErrors {
			fmt.Println("gvc: spec error:", e)
		}
	}
	// known findings that no longer fail are only reported in the evidence (never an alarm)
	var staleKnown []string
	for name := range knownBy {
		hit := false
		for _, h := range knownHit {
			if h == name {
				hit = true
			}
		}
		if !hit {
			staleKnown = append(staleKnown, name)
		}
	}
	sort.Strings(staleKnown)

	// evidence
	var funcs []map[string]interface{}
	var unmodelled []string
	classA := 0
	for _, r := range reps {
		np := 0
		for _, o := range r.Obligs {
			if o.Status == "proved" {
				np++
			}
		}
		if r.Class == "A" {
			classA++
		}
		funcs = append(funcs, map[string]interface{}{"function": r.Name, "class": r.Class, "class_reasons": r.ClassWhy, "obligations": len(r.Obligs), "discharged": np, "blocks": r.Blocks, "instructions": r.Instrs, "smt_lines": r.SMTLines, "unmodelled_calls": r.Unmodelled})
		for _, u := range r.Unmodelled {
			unmodelled = append(unmodelled, r.Name+": "+u)
		}
	}
	var assumed []string
	for a := range v.assumed {
		assumed = append(assumed, a)
	}
	sort.Strings(assumed)
	for _, o := range failed {
		if len(samples) < 10 {
			samples = append(samples, map[string]interface{}{"obligation": o.Name, "kind": o.Kind, "clause": o.Src, "result": o.Status, "solvers": o.Output, "pos": o.Pos})
		}
	}
	// obligations listed as recorded known findings are reported separately (KNOWN-FINDING
	// lines, known_finding_obligations): the claim covers the remaining obligations
	nObl -= len(knownHit)
	level := "proof"
	if nProved != nObl || nObl == 0 {
		level = "other"
	}
	// a partial claim (part of the property is residue) is reported at level "other"
	// even when every generated obligation discharges
	if l := os.Getenv("GVC_LEVEL"); l != "" && l != "proof" {
		level = l
	}
	if v.LevelCap != "" && v.LevelCap != "proof" {
		level = v.LevelCap
	}
	if ml := manifestLevel(v.VerifDir, prop); ml != "" && ml != "proof" {
		level = ml
	}
	trusted := []string{
		"go/packages + go/ssa (x/tools v0.29.0) produce SSA faithful to the compiler for the supported instruction subset",
		"gvc itself (symbolic executor, contract reader, SMT emitter)",
		"SMT solvers z3 4.8.12 / z3 5.1.0 / cvc5 1.0.x (an 'unsat' answer is believed)",
		"machine integers treated as mathematical integers except where a function's contract enables overflow obligations",
		"byte slices and strings are values of an abstract sort (no aliasing between slices)",
	}
	for _, a := range assumed {
		trusted = append(trusted, "assumed contract: "+a)
	}
	ev := map[string]interface{}{
		"property_id": prop, "tier": tier, "seed": seed, "level": level,
		"coverage": map[string]interface{}{
			"obligations":   nObl,
			"discharged":    nProved,
			"checker_cmd":   fmt.Sprintf("/verif/bin/gvc check --property %s --tier %s", prop, tier),
			"trusted_base":  trusted,
			"explanation":   fmt.Sprintf("%d obligations generated from the current /repo source for %d functions/lemmas under contract; %d discharged (unsat) by the solver race; %d failing of which %d are listed known findings", nObl, len(reps), nProved, len(failed), len(knownHit)),
			"samples":       samples,
			"functions":     funcs,
			"by_backend":    bySolver,
			"solver_secs":   round3(solverSecs),
			"load_secs":     round3(tLoad),
			"vcgen_secs":    round3(tGen),
			"timeout_s":     v.Timeout,
			"class_A_functions": classA,
			"unmodelled_call_sites": unmodelled,
			"inlined_calls": v.inlineCount,
			"vacuity_canaries": map[string]interface{}{"checked": len(canaries), "reachable": canaryOK, "vacuous": vacuous},
			"known_finding_obligations": len(knownHit),
			"known_findings_hit":   knownHit,
			"known_findings_not_reproduced": staleKnown,
			"contract_files": relFiles(v.DB.Files, v.Repo),
			"spec_errors":   v.specErrors,
		},
		"assumptions": trusted,
		"wall_s":      round3(time.Since(t0).Seconds()),
		"violations":  violations,
	}
	writeJSON(filepath.Join(v.outDir(), "evidence", prop+".json"), ev)
	for _, l := range lines {
		fmt.Println(l)
	}
	fmt.Printf("gvc: property %s tier %s: %d/%d obligations discharged, %d known findings, %d violations, %.1fs\n", prop, tier, nProved, nObl, len(knownHit), violations, time.Since(t0).Seconds())
	if verbose {
		for _, o := range obs {
			fmt.Printf("  %-8s %-70s %s\n", o.Status, o.Name, o.Output)
		}
		for _, c := range canaries {
			fmt.Printf("  canary %-8s %s %s\n", c.Status, c.Name, c.Output)
		}
	}
	return exit
}

// outDir: where evidence and replay files go (GVC_OUT overrides, used by the
// must-fail selftest so that mutant runs never touch the committed evidence).
func (v *Verifier) outDir() string {
	if d := os.Getenv("GVC_OUT"); d != "" {
		return d
	}
	return v.VerifDir
}

func round3(f float64) float64 { return float64(int(f*1000)) / 1000 }

func relFiles(fs []string, repo string) []string {
	var out []string
	for _, f := range fs {
		out = append(out, strings.TrimPrefix(f, repo+"/"))
	}
	return out
}

// writeReplay records a failed obligation; returns the path and whether a concrete
// failing input was found and reproduced on the real code.
func (v *Verifier) writeReplay(prop string, o *Oblig, scratch string) (string, bool) {
	path := filepath.Join(v.outDir(), "replays", prop+"-"+sanitizeFile(o.Name)+".json")
	rec := map[string]interface{}{
		"property": prop, "obligation": o.Name, "function": o.Func, "clause": o.Src, "position": o.Pos,
		"solver_result": o.Status, "solvers": o.Output, "kind": "no-failing-input-found",
	}
	if o.Model != "" {
		rec["model_excerpt"] = firstLines(o.Model, 120)
	}
	if o.Query != "" {
		// keep the query next to the replay so the obligation can be re-run
		qdst := strings.TrimSuffix(path, ".json") + ".smt2"
		if b, err := os.ReadFile(o.Query); err == nil {
			os.WriteFile(qdst, b, 0o644)
			rec["smt_query"] = qdst
		}
	}
	found := false
	if o.Status == "failed" && o.ex != nil {
		if rp := v.tryReplay(prop, o, rec); rp {
			found = true
			rec["kind"] = "counterexample"
		}
	}
	writeJSON(path, rec)
	return path, found
}

// manifestLevel: the level claimed for the property in MANIFEST.json (a partial claim
// is reported at that level even when every generated obligation discharges).
func manifestLevel(verif, prop string) string {
	b, err := os.ReadFile(filepath.Join(verif, "MANIFEST.json"))
	if err != nil {
		return ""
	}
	var m struct {
		Checks []struct {
			PropertyID string `json:"property_id"`
			Level      struct {
				Category string `json:"category"`
			} `json:"level_claimed"`
		} `json:"checks"`
	}
	if json.Unmarshal(b, &m) != nil {
		return ""
	}
	for _, c := range m.Checks {
		if c.PropertyID == prop {
			return c.Level.Category
		}
	}
	return ""
}
