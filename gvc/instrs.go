package main

import (
	"fmt"
	"go/token"
	"go/types"
	"strings"

	"golang.org/x/tools/go/ssa"
)

func (x *Exec) step(ins ssa.Instruction, within map[*ssa.BasicBlock]bool) {
	switch i := ins.(type) {
	case *ssa.DebugRef:
	case *ssa.Phi:
		// handled by enterBlock
	case *ssa.Alloc:
		x.doAlloc(i)
	case *ssa.Store:
		addr := x.val(i.Addr)
		l := x.locOf(addr, i.Addr.Type())
		x.nilCheck(addr, l, "store", i.Pos())
		x.writeLoc(l, x.termOf(x.val(i.Val)))
	case *ssa.UnOp:
		x.doUnOp(i)
	case *ssa.BinOp:
		x.doBinOp(i)
	case *ssa.FieldAddr:
		base := x.val(i.X)
		bl := x.locOf(base, i.X.Type())
		st := i.X.Type().Underlying().(*types.Pointer).Elem()
		if bl.Kind == LStruct {
			x.safe("nilderef", fieldName(st, i.Field), "(not (= "+bl.Ref+" 0))", i.Pos())
			x.vals[i] = Val{Loc: x.fieldLoc(bl.Ref, st, i.Field), KnownLen: -1}
		} else {
			u := st.Underlying().(*types.Struct)
			nl := *bl
			nl.Path = append(append([]pathSel{}, bl.Path...), pathSel{Sort: x.smt.structSort(st, u), Typ: st, Field: i.Field})
			nl.Elem = u.Field(i.Field).Type()
			x.vals[i] = Val{Loc: &nl, KnownLen: -1}
		}
	case *ssa.Field:
		base := x.val(i.X)
		st := i.X.Type()
		u := st.Underlying().(*types.Struct)
		name := x.smt.structSort(st, u)
		x.bind(i, tv("("+x.smt.fieldSel(name, u.Field(i.Field).Name(), i.Field)+" "+x.termOf(base)+")"))
	case *ssa.IndexAddr:
		x.doIndexAddr(i)
	case *ssa.Index:
		x.doIndex(i)
	case *ssa.Slice:
		x.doSlice(i)
	case *ssa.MakeSlice:
		n := x.termOf(x.val(i.Len))
		x.safe("makeslice", "len", "(>= "+n+" 0)", i.Pos())
		if isByteSlice(i.Type()) {
			x.bind(i, tv("(bzero "+n+")"))
			return
		}
		r := x.newRef()
		el := i.Type().Underlying().(*types.Slice).Elem()
		so := x.smt.sortOf(el)
		sv, svs := "SH."+sortTag(so), "(Array Int (Array Int "+so+"))"
		x.setSV(sv, svs, "(store "+x.getSV(sv, svs)+" "+r+" "+x.zeroArray(so, x.smt.zero(el))+")")
		x.bind(i, tv("(mk-slice "+r+" 0 "+n+")"))
	case *ssa.MakeMap:
		r := x.newRef()
		mt := i.Type().Underlying().(*types.Map)
		dsv, dso, _, _ := x.mapSV(mt)
		ks := x.smt.sortOf(mt.Key())
		x.setSV(dsv, dso, "(store "+x.getSV(dsv, dso)+" "+r+" ((as const (Array "+ks+" Bool)) false))")
		x.setSV("MapN", "(Array Int Int)", "(store "+x.getSV("MapN", "(Array Int Int)")+" "+r+" 0)")
		x.bind(i, tv(r))
	case *ssa.MakeChan:
		r := x.newRef()
		x.setSV("ChWr", "(Array Int Int)", "(store "+x.getSV("ChWr", "(Array Int Int)")+" "+r+" 0)")
		x.setSV("ChRd", "(Array Int Int)", "(store "+x.getSV("ChRd", "(Array Int Int)")+" "+r+" 0)")
		x.setSV("ChClosed", "(Array Int Bool)", "(store "+x.getSV("ChClosed", "(Array Int Bool)")+" "+r+" false)")
		x.bind(i, tv(r))
	case *ssa.MakeInterface:
		x.bind(i, tv(x.box(x.val(i.X), i.X.Type())))
	case *ssa.ChangeInterface:
		x.bind(i, tv(x.termOf(x.val(i.X))))
	case *ssa.ChangeType:
		v := x.val(i.X)
		x.vals[i] = v
	case *ssa.Convert:
		x.doConvert(i)
	case *ssa.TypeAssert:
		x.doTypeAssert(i)
	case *ssa.Extract:
		t := x.val(i.Tuple)
		if i.Index < len(t.Tuple) {
			x.vals[i] = t.Tuple[i.Index]
		} else {
			x.markA("extract from non-tuple")
			x.vals[i] = tv(x.smt.fresh("ext", x.smt.sortOf(i.Type())))
		}
	case *ssa.Lookup:
		x.doLookup(i)
	case *ssa.MapUpdate:
		x.doMapUpdate(i)
	case *ssa.MakeClosure:
		var bs []Val
		for _, b := range i.Bindings {
			bs = append(bs, x.val(b))
		}
		x.vals[i] = Val{Fn: i.Fn.(*ssa.Function), Binds: bs, KnownLen: -1}
	case *ssa.Call:
		x.doCall(i, &i.Call, i.Pos())
	case *ssa.Go:
		x.doGo(i)
	case *ssa.Defer:
		x.defers = append(append([]deferred{}, x.defers...), deferred{call: &i.Call, reach: x.reach, instr: i})
	case *ssa.RunDefers:
		ds := x.defers
		for k := len(ds) - 1; k >= 0; k-- {
			d := ds[k]
			if d.reach != x.reach && d.reach != "true" {
				// conditionally registered defer: run under its condition by branching the state
				before := x.st.clone()
				x.doCall(nil, d.call, d.instr.Pos())
				after := x.st
				x.st = x.mergeStates([]edge{{cond: d.reach, st: after}, {cond: "true", st: before}})
				continue
			}
			x.doCall(nil, d.call, d.instr.Pos())
		}
		x.defers = nil
	case *ssa.Send:
		x.doSend(i)
	case *ssa.Select:
		x.doSelect(i)
	case *ssa.Range:
		x.doRange(i)
	case *ssa.Next:
		x.doNext(i)
	case *ssa.If:
		c := x.termOf(x.val(i.Cond))
		b := i.Block()
		x.pushEdge(b.Succs[0], x.smt.define("E", "Bool", and(x.reach, c)), within)
		x.pushEdge(b.Succs[1], x.smt.define("E", "Bool", and(x.reach, not(c))), within)
	case *ssa.Jump:
		x.pushEdge(i.Block().Succs[0], x.reach, within)
	case *ssa.Return:
		var vs []Val
		for _, r := range i.Results {
			vs = append(vs, x.val(r))
		}
		x.rets = append(x.rets, retPoint{reach: x.reach, vals: vs, st: x.st.clone(), blk: x.root().cur})
	case *ssa.Panic:
		x.safe("panic", "explicit", "false", i.Pos())
	default:
		x.markA(fmt.Sprintf("unsupported instruction %T", ins))
		if v, ok := ins.(ssa.Value); ok {
			x.vals[v] = tv(x.smt.fresh("unsup", x.smt.sortOf(v.Type())))
		}
	}
}

func fieldName(st types.Type, i int) string {
	u := st.Underlying().(*types.Struct)
	n := st.String()
	if j := strings.LastIndex(n, "."); j >= 0 {
		n = n[j+1:]
	}
	return n + "." + u.Field(i).Name()
}

func (x *Exec) nilCheck(v Val, l *Loc, what string, p token.Pos) {
	if l.Kind == LBox || l.Kind == LStruct {
		x.safe("nilderef", what, "(not (= "+l.Ref+" 0))", p)
	}
}

func (x *Exec) doAlloc(i *ssa.Alloc) {
	el := i.Type().(*types.Pointer).Elem()
	name := i.Comment
	if name == "" {
		name = i.Name()
	}
	switch u := el.Underlying().(type) {
	case *types.Struct:
		r := x.newRef()
		x.vals[i] = tv(x.smt.define(x.vname(i), "Int", r))
		x.writeStruct(x.vals[i].T, el, x.smt.zero(el))
		return
	case *types.Array:
		if isByteArray(el) {
			sv := fmt.Sprintf("cell.%s.%s%s", i.Name(), name, x.nameSuffix)
			l := &Loc{Kind: LCell, SV: sv, Sort: "Str", Elem: el}
			x.vals[i] = Val{Loc: l, KnownLen: -1}
			x.writeLoc(l, x.smt.zero(el))
			return
		}
		r := x.newRef()
		so := x.smt.sortOf(u.Elem())
		sv, svs := "SH."+sortTag(so), "(Array Int (Array Int "+so+"))"
		x.setSV(sv, svs, "(store "+x.getSV(sv, svs)+" "+r+" "+x.zeroArray(so, x.smt.zero(u.Elem()))+")")
		v := tv(x.smt.define(x.vname(i), "Slice", fmt.Sprintf("(mk-slice %s 0 %d)", r, u.Len())))
		v.KnownLen = int(u.Len())
		x.vals[i] = v
		return
	}
	so := x.smt.sortOf(el)
	if !escapes(i) {
		sv := fmt.Sprintf("cell.%s.%s%s", i.Name(), name, x.nameSuffix)
		l := &Loc{Kind: LCell, SV: sv, Sort: so, Elem: el}
		x.vals[i] = Val{Loc: l, KnownLen: -1}
		x.writeLoc(l, x.smt.zero(el))
		return
	}
	r := x.newRef()
	l := &Loc{Kind: LBox, SV: "Box." + sortTag(so), Sort: "(Array Int " + so + ")", Ref: r, Elem: el}
	x.vals[i] = Val{Loc: l, KnownLen: -1}
	x.writeLoc(l, x.smt.zero(el))
}

// escapes: the address is used other than by load/store/field/index/closure capture.
func escapes(a *ssa.Alloc) bool {
	for _, r := range *a.Referrers() {
		switch u := r.(type) {
		case *ssa.Store:
			if u.Val == a {
				return true
			}
		case *ssa.UnOp, *ssa.DebugRef, *ssa.FieldAddr, *ssa.IndexAddr, *ssa.MakeClosure:
		default:
			return true
		}
	}
	return false
}

func (x *Exec) doUnOp(i *ssa.UnOp) {
	v := x.val(i.X)
	switch i.Op {
	case token.MUL: // load
		l := x.locOf(v, i.X.Type())
		x.nilCheck(v, l, "load", i.Pos())
		r := tv(x.readLoc(l))
		if l.Kind == LCell && strings.HasPrefix(l.SV, "fv.") {
			if fv, ok := x.fvKnown[l.SV]; ok {
				r.KnownLen = fv
			}
		}
		x.bind(i, r)
		if l.Kind != LCell && !x.discovering {
			if _, ok := i.Type().Underlying().(*types.Slice); ok && !isByteSlice(i.Type()) {
				t := x.vals[i].T
				x.smt.assume(implies(x.reach, "(and (>= (slen "+t+") 0) (>= (soff "+t+") 0))"))
			}
			x.refFact(x.vals[i].T, i.Type())
		}
	case token.NOT:
		x.bind(i, tv(not(x.termOf(v))))
	case token.SUB:
		if x.smt.sortOf(i.Type()) == "F64" {
			x.bind(i, tv("(fp.neg "+x.termOf(v)+")"))
		} else {
			x.bind(i, tv("(- "+x.termOf(v)+")"))
		}
	case token.ARROW:
		x.doRecv(i, v)
	case token.XOR:
		x.markA("bitwise complement")
		x.bind(i, tv(x.smt.fresh("xor", "Int")))
	default:
		x.markA("unsupported unop " + i.Op.String())
		x.bind(i, tv(x.smt.fresh("unop", x.smt.sortOf(i.Type()))))
	}
}

func (x *Exec) doBinOp(i *ssa.BinOp) {
	a, b := x.val(i.X), x.val(i.Y)
	so := x.smt.sortOf(i.X.Type())
	at, bt := x.termOf(a), x.termOf(b)
	var r Term
	switch so {
	case "F64":
		switch i.Op {
		case token.ADD:
			r = "(fp.add RNE " + at + " " + bt + ")"
		case token.SUB:
			r = "(fp.sub RNE " + at + " " + bt + ")"
		case token.MUL:
			r = "(fp.mul RNE " + at + " " + bt + ")"
		case token.QUO:
			r = "(fp.div RNE " + at + " " + bt + ")"
		case token.EQL:
			r = "(fp.eq " + at + " " + bt + ")"
		case token.NEQ:
			r = "(not (fp.eq " + at + " " + bt + "))"
		case token.LSS:
			r = "(fp.lt " + at + " " + bt + ")"
		case token.LEQ:
			r = "(fp.leq " + at + " " + bt + ")"
		case token.GTR:
			r = "(fp.gt " + at + " " + bt + ")"
		case token.GEQ:
			r = "(fp.geq " + at + " " + bt + ")"
		}
	case "Int":
		switch i.Op {
		case token.ADD:
			r = "(+ " + at + " " + bt + ")"
		case token.SUB:
			r = "(- " + at + " " + bt + ")"
		case token.MUL:
			r = "(* " + at + " " + bt + ")"
		case token.QUO:
			x.safe("divzero", "quo", "(not (= "+bt+" 0))", i.Pos())
			r = "(go_div " + at + " " + bt + ")"
		case token.REM:
			x.safe("divzero", "rem", "(not (= "+bt+" 0))", i.Pos())
			r = "(go_rem " + at + " " + bt + ")"
		case token.EQL:
			r = eq(at, bt)
		case token.NEQ:
			r = not(eq(at, bt))
		case token.LSS:
			r = "(< " + at + " " + bt + ")"
		case token.LEQ:
			r = "(<= " + at + " " + bt + ")"
		case token.GTR:
			r = "(> " + at + " " + bt + ")"
		case token.GEQ:
			r = "(>= " + at + " " + bt + ")"
		}
		if r != "" && x.c != nil && x.c.Overflow && (i.Op == token.ADD || i.Op == token.SUB || i.Op == token.MUL) {
			if lo, hi, ok := intRange(i.Type()); ok {
				rr := x.smt.define(x.vname(i), "Int", r)
				r = rr
				x.safeAlways("overflow", i.Op.String(), "(and (<= "+lo+" "+rr+") (<= "+rr+" "+hi+"))", i.Pos())
			}
		}
	case "Bool":
		switch i.Op {
		case token.EQL:
			r = eq(at, bt)
		case token.NEQ:
			r = not(eq(at, bt))
		case token.AND:
			r = and(at, bt)
		case token.OR:
			r = or(at, bt)
		}
	case "Str":
		switch i.Op {
		case token.ADD:
			r = "(sconcat " + at + " " + bt + ")"
		case token.EQL:
			r = eq(at, bt)
		case token.NEQ:
			r = not(eq(at, bt))
		case token.LSS, token.LEQ, token.GTR, token.GEQ:
			x.smt.funcSortsNote("strlt")
			op := map[token.Token]string{token.LSS: "(strlt %s %s)", token.LEQ: "(not (strlt %[2]s %[1]s))", token.GTR: "(strlt %[2]s %[1]s)", token.GEQ: "(not (strlt %s %s))"}[i.Op]
			r = fmt.Sprintf(op, at, bt)
			x.needDecl("strlt", "(declare-fun strlt (Str Str) Bool)")
		}
	case "Any":
		// comparing two interface values panics when both hold the same
		// uncomparable dynamic type (slice, map)
		if (i.Op == token.EQL || i.Op == token.NEQ) && at != "ANil" && bt != "ANil" {
			x.safe("ifacecompare", "uncomparable", not(or(and("((_ is AList) "+at+")", "((_ is AList) "+bt+")"), and("((_ is AMap) "+at+")", "((_ is AMap) "+bt+")"))), i.Pos())
		}
		switch i.Op {
		case token.EQL:
			r = eq(at, bt)
		case token.NEQ:
			r = not(eq(at, bt))
		}
	case "Slice":
		// only comparison with nil is legal
		nilSide := bt
		other := at
		if c, ok := i.X.(*ssa.Const); ok && c.Value == nil {
			nilSide, other = at, bt
		}
		_ = nilSide
		switch i.Op {
		case token.EQL:
			r = "(= (sref " + other + ") 0)"
		case token.NEQ:
			r = "(not (= (sref " + other + ") 0))"
		}
	default:
		switch i.Op {
		case token.EQL:
			r = eq(at, bt)
		case token.NEQ:
			r = not(eq(at, bt))
		}
	}
	if r == "" {
		x.markA("unsupported binop " + i.Op.String() + " on " + so)
		r = x.smt.fresh("binop", x.smt.sortOf(i.Type()))
	}
	x.bind(i, tv(r))
}

func (x *Exec) needDecl(name, decl string) {
	if x.smt.declaredSort(name) != "" {
		return // already declared by the base prelude or a loaded spec prelude
	}
	key := "decl:" + name
	if x.smt.declared[key] {
		return
	}
	x.smt.declared[key] = true
	for _, d := range x.smt.sorts {
		if d == decl {
			return // declared during a loop-discovery pass whose bookkeeping was rolled back
		}
	}
	x.smt.sorts = append(x.smt.sorts, decl)
}

func (s *SMT) funcSortsNote(string) {}

// safeAlways: like safe but enabled by the 'overflow' directive rather than nopanic.
func (x *Exec) safeAlways(kind, what string, cond Term, p token.Pos) {
	if x.discovering {
		return
	}
	key := kind + ":" + what
	x.safeN[key]++
	x.oblige("safe", fmt.Sprintf("safe:%s:%s:%d", kind, what, x.safeN[key]), x.reach, cond, kind+" "+what, p)
}

func intRange(t types.Type) (string, string, bool) {
	b, ok := t.Underlying().(*types.Basic)
	if !ok {
		return "", "", false
	}
	switch b.Kind() {
	case types.Int8:
		return "(- 128)", "127", true
	case types.Int16:
		return "(- 32768)", "32767", true
	case types.Int32:
		return "(- 2147483648)", "2147483647", true
	case types.Int, types.Int64:
		return "(- 9223372036854775808)", "9223372036854775807", true
	case types.Uint8:
		return "0", "255", true
	case types.Uint16:
		return "0", "65535", true
	case types.Uint32:
		return "0", "4294967295", true
	case types.Uint, types.Uint64, types.Uintptr:
		return "0", "18446744073709551615", true
	}
	return "", "", false
}

func (x *Exec) sliceHeap(elem types.Type) (string, string, string) {
	so := x.smt.sortOf(elem)
	return "SH." + sortTag(so), "(Array Int (Array Int " + so + "))", so
}

func (x *Exec) doIndexAddr(i *ssa.IndexAddr) {
	base := x.val(i.X)
	idx := x.termOf(x.val(i.Index))
	var elem types.Type
	switch t := i.X.Type().Underlying().(type) {
	case *types.Slice:
		elem = t.Elem()
	case *types.Pointer:
		elem = t.Elem().Underlying().(*types.Array).Elem()
	}
	if base.Loc != nil && base.Loc.Kind == LCell && base.Loc.Sort == "Str" {
		// pointer to a byte array cell: element address
		x.vals[i] = Val{Loc: &Loc{Kind: LByte, SV: base.Loc.SV, Sort: "Str", Idx: idx, Elem: elem}, KnownLen: -1}
		return
	}
	if isByteSlice(i.X.Type()) {
		// element of a byte string value: readable, not writable (byte strings are values)
		bt := x.termOf(base)
		x.safe("index", "bytes", "(and (<= 0 "+idx+") (< "+idx+" (strlen "+bt+")))", i.Pos())
		x.vals[i] = Val{Loc: &Loc{Kind: LByteRO, Ref: bt, Idx: idx, Elem: elem}, KnownLen: -1}
		return
	}
	bt := x.termOf(base)
	x.safe("index", "slice", "(and (<= 0 "+idx+") (< "+idx+" (slen "+bt+")))", i.Pos())
	sv, svs, _ := x.sliceHeap(elem)
	x.vals[i] = Val{Loc: &Loc{Kind: LElem, SV: sv, Sort: svs, Ref: "(sref " + bt + ")", Idx: "(ix (soff " + bt + ") " + idx + ")", Elem: elem}, KnownLen: -1}
}

func (x *Exec) doIndex(i *ssa.Index) {
	base := x.termOf(x.val(i.X))
	idx := x.termOf(x.val(i.Index))
	switch t := i.X.Type().Underlying().(type) {
	case *types.Basic: // string
		x.safe("index", "string", "(and (<= 0 "+idx+") (< "+idx+" (strlen "+base+")))", i.Pos())
		x.bind(i, tv("(bget "+base+" "+idx+")"))
	case *types.Array:
		if isByteArray(i.X.Type()) {
			x.bind(i, tv("(bget "+base+" "+idx+")"))
			return
		}
		sv, svs, _ := x.sliceHeap(t.Elem())
		x.bind(i, tv("(select (select "+x.getSV(sv, svs)+" (sref "+base+")) (ix (soff "+base+") "+idx+"))"))
	default:
		x.markA("index on " + i.X.Type().String())
		x.bind(i, tv(x.smt.fresh("idx", x.smt.sortOf(i.Type()))))
	}
}

func (x *Exec) doSlice(i *ssa.Slice) {
	base := x.val(i.X)
	// byte array cell or []byte / string
	if base.Loc != nil && base.Loc.Kind == LCell && base.Loc.Sort == "Str" {
		whole := i.Low == nil && i.High == nil
		if !whole && i.Low == nil && i.High != nil {
			// t[:N] of a [N]byte array (the shape of make([]byte, N) with constant N)
			if c, ok := i.High.(*ssa.Const); ok {
				if at, ok := base.Loc.Elem.Underlying().(*types.Array); ok && c.Int64() == at.Len() {
					whole = true
				}
			}
		}
		if whole {
			x.vals[i] = Val{Origin: base.Loc, KnownLen: -1}
			return
		}
		// a proper sub-slice of a byte array: a value (writes through it are not modelled)
		cell := x.readLoc(base.Loc)
		lo, hi := "0", "(strlen "+cell+")"
		if i.Low != nil {
			lo = x.termOf(x.val(i.Low))
		}
		if i.High != nil {
			hi = x.termOf(x.val(i.High))
		}
		x.needDecl("substr", "(declare-fun substr (Str Int Int) Str)")
		x.markA("sub-slice of a byte array treated as a value")
		x.bind(i, tv("(substr "+cell+" "+lo+" "+hi+")"))
		return
	}
	bt := x.termOf(base)
	if x.smt.sortOf(i.X.Type()) == "Str" {
		if i.Low == nil && i.High == nil {
			x.bind(i, tv(bt))
			return
		}
		lo, hi := "0", "(strlen "+bt+")"
		if i.Low != nil {
			lo = x.termOf(x.val(i.Low))
		}
		if i.High != nil {
			hi = x.termOf(x.val(i.High))
		}
		x.safe("slice", "bytes", "(and (<= 0 "+lo+") (<= "+lo+" "+hi+") (<= "+hi+" (strlen "+bt+")))", i.Pos())
		x.needDecl("substr", "(declare-fun substr (Str Int Int) Str)")
		x.bind(i, tv("(substr "+bt+" "+lo+" "+hi+")"))
		return
	}
	if i.Low == nil && i.High == nil && i.Max == nil {
		r := tv(bt)
		r.KnownLen = base.KnownLen
		if _, ok := i.X.Type().Underlying().(*types.Pointer); ok {
			x.safe("nilderef", "slicearray", "(not (= (sref "+bt+") 0))", i.Pos())
		}
		x.bind(i, r)
		return
	}
	lo, hi := "0", "(slen "+bt+")"
	if i.Low != nil {
		lo = x.termOf(x.val(i.Low))
	}
	if i.High != nil {
		hi = x.termOf(x.val(i.High))
	}
	// Go allows hi up to cap; we only model len (stricter, reported as such).
	x.safe("slice", "bounds", "(and (<= 0 "+lo+") (<= "+lo+" "+hi+") (<= "+hi+" (slen "+bt+")))", i.Pos())
	x.bind(i, tv("(mk-slice (sref "+bt+") (+ (soff "+bt+") "+lo+") (- "+hi+" "+lo+"))"))
}

func (x *Exec) doConvert(i *ssa.Convert) {
	v := x.val(i.X)
	from, to := x.smt.sortOf(i.X.Type()), x.smt.sortOf(i.Type())
	t := x.termOf(v)
	switch {
	case from == to:
		if from == "Int" {
			if lo, hi, ok := intRange(i.Type()); ok && x.c != nil && x.c.Overflow {
				if flo, fhi, ok2 := intRange(i.X.Type()); !ok2 || flo != lo || fhi != hi {
					x.safeAlways("overflow", "convert", "(and (<= "+lo+" "+t+") (<= "+t+" "+hi+"))", i.Pos())
				}
			}
		}
		x.bind(i, tv(t))
	case from == "Int" && to == "F64":
		x.bind(i, tv("((_ to_fp 11 53) RNE (to_real "+t+"))"))
	case from == "F64" && to == "Int":
		x.needDecl("f2i", "(declare-fun f2i (F64) Int)")
		x.bind(i, tv("(f2i "+t+")"))
	case from == "Int" && to == "Str":
		x.needDecl("runestr", "(declare-fun runestr (Int) Str)")
		x.bind(i, tv("(runestr "+t+")"))
	default:
		x.markA("convert " + from + " -> " + to)
		x.bind(i, tv(x.smt.fresh("conv", to)))
	}
}

// ---- interfaces ---------------------------------------------------------------

func intKindID(b *types.Basic) int { return int(b.Kind()) }

// box wraps a concrete value into the Any datatype.
func (x *Exec) box(v Val, t types.Type) Term {
	t = canonType(t)
	if _, ok := t.Underlying().(*types.Interface); ok {
		return x.termOf(v)
	}
	switch u := t.Underlying().(type) {
	case *types.Basic:
		named := t.String() != u.String()
		switch {
		case u.Info()&types.IsBoolean != 0 && !named:
			return "(ABool " + x.termOf(v) + ")"
		case u.Info()&types.IsFloat != 0 && u.Kind() == types.Float64 && !named:
			return "(ANum " + x.termOf(v) + ")"
		case u.Info()&types.IsString != 0 && !named:
			return "(AStr " + x.termOf(v) + ")"
		case u.Info()&types.IsInteger != 0:
			return fmt.Sprintf("(AInt %d %s)", x.smt.typeID(t.String()), x.termOf(v))
		case u.Kind() == types.UntypedNil:
			return "ANil"
		}
	case *types.Pointer:
		return fmt.Sprintf("(APtr %d %s)", x.smt.typeID(t.String()), x.termOf(v))
	case *types.Slice:
		if t.String() == "[]interface{}" || t.String() == "[]any" {
			return "(AList " + x.termOf(v) + ")"
		}
	case *types.Map:
		if t.String() == "map[string]interface{}" || t.String() == "map[string]any" {
			return "(AMap " + x.termOf(v) + ")"
		}
		return fmt.Sprintf("(APtr %d %s)", x.smt.typeID(t.String()), x.termOf(v))
	}
	// opaque: identity of the payload is lost (sound: a fresh token)
	tok := x.smt.fresh("opaque", "Int")
	return fmt.Sprintf("(AOpaque %d %s)", x.smt.typeID(t.String()), tok)
}

// unboxCond gives (ok condition, payload) for x.(T).
func (x *Exec) unbox(a Term, t types.Type, static types.Type) (Term, Term) {
	t = canonType(t)
	switch u := t.Underlying().(type) {
	case *types.Interface:
		if u.NumMethods() == 0 {
			return "(not (= " + a + " ANil))", a
		}
		if si, ok := static.Underlying().(*types.Interface); ok && types.Implements(static, u) && si.NumMethods() > 0 {
			return "(not (= " + a + " ANil))", a
		}
		x.needDecl("implements", "(declare-fun implements (Any Int) Bool)")
		return fmt.Sprintf("(and (not (= %s ANil)) (implements %s %d))", a, a, x.smt.typeID("iface:"+t.String())), a
	case *types.Basic:
		named := t.String() != u.String()
		switch {
		case u.Info()&types.IsBoolean != 0 && !named:
			return "((_ is ABool) " + a + ")", "(abool " + a + ")"
		case u.Kind() == types.Float64 && !named:
			return "((_ is ANum) " + a + ")", "(anum " + a + ")"
		case u.Info()&types.IsString != 0 && !named:
			return "((_ is AStr) " + a + ")", "(astr " + a + ")"
		case u.Info()&types.IsInteger != 0:
			return fmt.Sprintf("(and ((_ is AInt) %s) (= (aikind %s) %d))", a, a, x.smt.typeID(t.String())), "(aint " + a + ")"
		}
	case *types.Pointer:
		return fmt.Sprintf("(and ((_ is APtr) %s) (= (atype %s) %d))", a, a, x.smt.typeID(t.String())), "(aref " + a + ")"
	case *types.Slice:
		if t.String() == "[]interface{}" || t.String() == "[]any" {
			return "((_ is AList) " + a + ")", "(alist " + a + ")"
		}
	case *types.Map:
		if t.String() == "map[string]interface{}" || t.String() == "map[string]any" {
			return "((_ is AMap) " + a + ")", "(amap " + a + ")"
		}
		return fmt.Sprintf("(and ((_ is APtr) %s) (= (atype %s) %d))", a, a, x.smt.typeID(t.String())), "(aref " + a + ")"
	}
	so := x.smt.sortOf(t)
	x.markA("type assertion to " + t.String() + " loses the payload")
	return fmt.Sprintf("(and ((_ is AOpaque) %s) (= (otype %s) %d))", a, a, x.smt.typeID(t.String())), x.smt.fresh("unboxed", so)
}

func (x *Exec) doTypeAssert(i *ssa.TypeAssert) {
	a := x.termOf(x.val(i.X))
	ok, payload := x.unbox(a, i.AssertedType, i.X.Type())
	so := x.smt.sortOf(i.AssertedType)
	if i.CommaOk {
		okt := x.smt.define(x.vname(i)+".ok", "Bool", ok)
		val := tv(x.smt.define(x.vname(i)+".v", so, ite(okt, payload, x.smt.zero(i.AssertedType))))
		x.vals[i] = Val{Tuple: []Val{val, tv(okt)}, KnownLen: -1}
		return
	}
	x.safe("typeassert", shortType(i.AssertedType.String()), ok, i.Pos())
	x.bind(i, tv(payload))
}

// ---- maps -------------------------------------------------------------------

func (x *Exec) mapSV(mt *types.Map) (dsv, dso, vsv, vso string) {
	ks, vs := x.smt.sortOf(mt.Key()), x.smt.sortOf(mt.Elem())
	dsv = "MapD." + sortTag(ks)
	dso = "(Array Int (Array " + ks + " Bool))"
	vsv = "MapV." + sortTag(ks) + "." + sortTag(vs)
	vso = "(Array Int (Array " + ks + " " + vs + "))"
	return
}

func (x *Exec) doLookup(i *ssa.Lookup) {
	m := x.termOf(x.val(i.X))
	k := x.termOf(x.val(i.Index))
	mt, ok := i.X.Type().Underlying().(*types.Map)
	if !ok {
		// string index
		x.safe("index", "string", "(and (<= 0 "+k+") (< "+k+" (strlen "+m+")))", i.Pos())
		x.bind(i, tv("(bget "+m+" "+k+")"))
		return
	}
	x.hashable(mt, k, i.Pos())
	dsv, dso, vsv, vso := x.mapSV(mt)
	has := "(select (select " + x.getSV(dsv, dso) + " " + m + ") " + k + ")"
	has = and("(not (= "+m+" 0))", has)
	val := ite(has, "(select (select "+x.getSV(vsv, vso)+" "+m+") "+k+")", x.smt.zero(mt.Elem()))
	if i.CommaOk {
		hv := x.smt.define(x.vname(i)+".ok", "Bool", has)
		x.vals[i] = Val{Tuple: []Val{tv(x.smt.define(x.vname(i)+".v", x.smt.sortOf(mt.Elem()), val)), tv(hv)}, KnownLen: -1}
		return
	}
	x.bind(i, tv(val))
}

// hashable: a map with interface keys panics ("hash of unhashable type") when the key
// holds a slice or a map.
func (x *Exec) hashable(mt *types.Map, k Term, p token.Pos) {
	if _, isIface := mt.Key().Underlying().(*types.Interface); !isIface {
		return
	}
	if x.smt.sortOf(mt.Key()) != "Any" {
		return
	}
	x.safe("maphash", "unhashable", not(or("((_ is AList) "+k+")", "((_ is AMap) "+k+")")), p)
}

func (x *Exec) doMapUpdate(i *ssa.MapUpdate) {
	m := x.termOf(x.val(i.Map))
	k := x.termOf(x.val(i.Key))
	v := x.termOf(x.val(i.Value))
	mt := i.Map.Type().Underlying().(*types.Map)
	x.safe("nilmap", "write", "(not (= "+m+" 0))", i.Pos())
	x.hashable(mt, k, i.Pos())
	dsv, dso, vsv, vso := x.mapSV(mt)
	d := x.getSV(dsv, dso)
	n := x.getSV("MapN", "(Array Int Int)")
	x.setSV("MapN", "(Array Int Int)", "(store "+n+" "+m+" (ite (select (select "+d+" "+m+") "+k+") (select "+n+" "+m+") (+ (select "+n+" "+m+") 1)))")
	x.setSV(dsv, dso, "(store "+d+" "+m+" (store (select "+d+" "+m+") "+k+" true))")
	h := x.getSV(vsv, vso)
	x.setSV(vsv, vso, "(store "+h+" "+m+" (store (select "+h+" "+m+") "+k+" "+v+"))")
}

// Map iteration: a ghost visited set; each Next either yields an unvisited key of
// the domain or reports exhaustion when every key has been visited.
func (x *Exec) doRange(i *ssa.Range) {
	if _, ok := i.X.Type().Underlying().(*types.Map); !ok {
		x.markA("range over string")
		x.vals[i] = tv("0")
		return
	}
	m := x.termOf(x.val(i.X))
	mt := i.X.Type().Underlying().(*types.Map)
	ks := x.smt.sortOf(mt.Key())
	sv := fmt.Sprintf("cell.iter.%s%s", i.Name(), x.nameSuffix)
	x.setSV(sv, "(Array "+ks+" Bool)", "((as const (Array "+ks+" Bool)) false)")
	x.setSV(sv+".n", "Int", "0")
	x.vals[i] = Val{T: m, Loc: nil, KnownLen: -1}
	x.iterSV[i] = sv
}

func (x *Exec) doNext(i *ssa.Next) {
	rng, ok := i.Iter.(*ssa.Range)
	if !ok || i.IsString {
		x.markA("next over non-map iterator")
		x.vals[i] = Val{Tuple: []Val{tv(x.smt.fresh("ok", "Bool")), tv("0"), tv("0")}, KnownLen: -1}
		return
	}
	mt := rng.X.Type().Underlying().(*types.Map)
	ks, vs := x.smt.sortOf(mt.Key()), x.smt.sortOf(mt.Elem())
	m := x.termOf(x.val(rng.X))
	sv := x.iterSV[rng]
	if sv == "" {
		sv = fmt.Sprintf("cell.iter.%s%s", rng.Name(), x.nameSuffix)
	}
	visited := x.getSV(sv, "(Array "+ks+" Bool)")
	cnt := x.getSV(sv+".n", "Int")
	dsv, dso, vsv, vso := x.mapSV(mt)
	dom := "(select " + x.getSV(dsv, dso) + " " + m + ")"
	size := "(select " + x.getSV("MapN", "(Array Int Int)") + " " + m + ")"
	okc := x.smt.fresh("next.ok", "Bool")
	k := x.smt.fresh("next.k", ks)
	// when ok, k is a key of the map that has not been visited yet; when not ok,
	// every key has been visited (the iteration is exhaustive; its termination and
	// concurrent modification of the map are not modelled)
	_ = size
	x.smt.assume(implies(and(x.reach, okc), "(and (not (= "+m+" 0)) (select "+dom+" "+k+") (not (select "+visited+" "+k+")))"))
	x.smt.assume(implies(and(x.reach, not(okc)), "(or (= "+m+" 0) (forall ((kk "+ks+")) (! (=> (select "+dom+" kk) (select "+visited+" kk)) :pattern ((select "+visited+" kk)))))"))
	x.lastIter = sv
	x.lastIterSort = "(Array " + ks + " Bool)"
	val := "(select (select " + x.getSV(vsv, vso) + " " + m + ") " + k + ")"
	x.setSV(sv, "(Array "+ks+" Bool)", ite(okc, "(store "+visited+" "+k+" true)", visited))
	x.setSV(sv+".n", "Int", ite(okc, "(+ "+cnt+" 1)", cnt))
	x.vals[i] = Val{Tuple: []Val{tv(okc), tv(k), tv(x.smt.define(x.vname(i)+".v", vs, val))}, KnownLen: -1}
}

// ---- channels -----------------------------------------------------------------

func (x *Exec) chanAt(elem types.Type) (string, string) {
	so := x.smt.sortOf(elem)
	return "ChAt." + sortTag(so), "(Array Int (Array Int " + so + "))"
}

const arrII = "(Array Int Int)"

func (x *Exec) doRecv(i *ssa.UnOp, ch Val) {
	c := x.termOf(ch)
	elem := i.X.Type().Underlying().(*types.Chan).Elem()
	at, ats := x.chanAt(elem)
	rd := "(select " + x.getSV("ChRd", arrII) + " " + c + ")"
	ln := "(select " + x.getSV("ChLen", arrII) + " " + c + ")"
	ok := x.smt.define(x.vname(i)+".ok", "Bool", "(< "+rd+" "+ln+")")
	v := x.smt.define(x.vname(i)+".v", x.smt.sortOf(elem), ite(ok, "(select (select "+x.getSV(at, ats)+" "+c+") "+rd+")", x.smt.zero(elem)))
	x.smt.assume(implies(x.reach, "(and (<= 0 "+rd+") (<= "+rd+" "+ln+"))"))
	x.setSV("ChRd", arrII, "(store "+x.getSV("ChRd", arrII)+" "+c+" "+ite(ok, "(+ "+rd+" 1)", rd)+")")
	if i.CommaOk {
		x.vals[i] = Val{Tuple: []Val{tv(v), tv(ok)}, KnownLen: -1}
	} else {
		x.vals[i] = tv(v)
	}
}

func (x *Exec) doSend(i *ssa.Send) {
	c := x.termOf(x.val(i.Chan))
	v := x.termOf(x.val(i.X))
	elem := i.Chan.Type().Underlying().(*types.Chan).Elem()
	x.sendOn(c, v, elem, i.Pos())
}

func (x *Exec) sendOn(c, v Term, elem types.Type, p token.Pos) {
	at, ats := x.chanAt(elem)
	x.safe("sendclosed", "chan", "(not (select "+x.getSV("ChClosed", "(Array Int Bool)")+" "+c+"))", p)
	wr := "(select " + x.getSV("ChWr", arrII) + " " + c + ")"
	h := x.getSV(at, ats)
	x.setSV(at, ats, "(store "+h+" "+c+" (store (select "+h+" "+c+") "+wr+" "+v+"))")
	x.setSV("ChWr", arrII, "(store "+x.getSV("ChWr", arrII)+" "+c+" (+ "+wr+" 1))")
}

func (x *Exec) closeChan(c Term, p token.Pos) {
	cl := x.getSV("ChClosed", "(Array Int Bool)")
	x.safe("closeclosed", "chan", "(and (not (= "+c+" 0)) (not (select "+cl+" "+c+")))", p)
	x.setSV("ChClosed", "(Array Int Bool)", "(store "+cl+" "+c+" true)")
}

// select: every ready case may be chosen; modelled as a nondeterministic choice.
func (x *Exec) doSelect(i *ssa.Select) {
	n := len(i.States)
	idx := x.smt.fresh("select.idx", "Int")
	lo := "0"
	if !i.Blocking {
		lo = "(- 1)"
	}
	x.smt.assume(implies(x.reach, fmt.Sprintf("(and (<= %s %s) (< %s %d))", lo, idx, idx, n)))
	res := []Val{tv(idx), tv(x.smt.fresh("select.recvok", "Bool"))}
	for k, st := range i.States {
		c := x.termOf(x.val(st.Chan))
		elem := st.Chan.Type().Underlying().(*types.Chan).Elem()
		chosen := "(= " + idx + " " + intLit(int64(k)) + ")"
		if st.Dir == types.SendOnly {
			before := x.st.clone()
			x.sendOn(c, x.termOf(x.val(st.Send)), elem, st.Pos)
			after := x.st
			x.st = x.mergeStates([]edge{{cond: chosen, st: after}, {cond: "true", st: before}})
			continue
		}
		// receive: value from the channel's history when chosen
		at, ats := x.chanAt(elem)
		rd := "(select " + x.getSV("ChRd", arrII) + " " + c + ")"
		ln := "(select " + x.getSV("ChLen", arrII) + " " + c + ")"
		ok := "(< " + rd + " " + ln + ")"
		// a receive case can only be chosen when an item is there to take or the
		// channel is closed (at the latest by the end of the run: ChClosed)
		x.smt.assume(implies(and(x.reach, chosen), or(ok, "(select "+x.getSV("ChClosed", "(Array Int Bool)")+" "+c+")")))
		v := ite(ok, "(select (select "+x.getSV(at, ats)+" "+c+") "+rd+")", x.smt.zero(elem))
		x.setSV("ChRd", arrII, "(store "+x.getSV("ChRd", arrII)+" "+c+" "+ite(and(chosen, ok), "(+ "+rd+" 1)", rd)+")")
		x.smt.assume(implies(and(x.reach, chosen), "(= "+res[1].T+" "+ok+")"))
		res = append(res, tv(x.smt.define("select.v", x.smt.sortOf(elem), v)))
	}
	x.vals[i] = Val{Tuple: res, KnownLen: -1}
}

func (x *Exec) doGo(i *ssa.Go) {
	// The spawned closure is verified on its own as a sequential process
	// (DESIGN §4.3); the spawner only records the spawn.
	x.spawned = append(x.spawned, i)
}
