package main

import (
	"regexp"
	"strings"
)

var declRe = regexp.MustCompile(`\((?:declare-fun|define-fun|define-fun-rec)\s+(\S+)\s+\(`)
var constRe = regexp.MustCompile(`\(declare-const\s+(\S+)\s+([^\s()]+|\([^()]*\))\s*\)`)

// declaredSort: result sort of a function declared in the base prelude or in one
// of the loaded spec preludes ("" when unknown). Used to type `x == nil` etc.
func (s *SMT) declaredSort(name string) string {
	if s.funcSorts == nil {
		s.funcSorts = map[string]string{}
		for _, text := range append([]string{basePrelude}, s.preludes...) {
			scanDecls(text, s.funcSorts)
		}
	}
	return s.funcSorts[name]
}

func scanDecls(text string, out map[string]string) {
	for _, m := range constRe.FindAllStringSubmatch(text, -1) {
		out[m[1]] = m[2]
	}
	for _, loc := range declRe.FindAllStringSubmatchIndex(text, -1) {
		name := text[loc[2]:loc[3]]
		// skip the balanced parameter list that starts at loc[1]-1
		i := loc[1] - 1
		depth := 0
		for ; i < len(text); i++ {
			if text[i] == '(' {
				depth++
			} else if text[i] == ')' {
				depth--
				if depth == 0 {
					i++
					break
				}
			}
		}
		rest := strings.TrimSpace(text[i:])
		// the result sort: an identifier or a parenthesised sort
		if rest == "" {
			continue
		}
		if rest[0] == '(' {
			d := 0
			for j := 0; j < len(rest); j++ {
				if rest[j] == '(' {
					d++
				} else if rest[j] == ')' {
					d--
					if d == 0 {
						out[name] = rest[:j+1]
						break
					}
				}
			}
			continue
		}
		j := strings.IndexAny(rest, " \t\n)")
		if j < 0 {
			j = len(rest)
		}
		out[name] = rest[:j]
	}
}
