package main

import (
	"encoding/json"
	"flag"
	"fmt"
	"os"
	"os/exec"
	"path/filepath"
	"sort"
	"strconv"
	"strings"
	"time"
)

func usage() {
	fmt.Fprintln(os.Stderr, `usage:
  gvc check  --property Cxx [--tier quick|thorough] [--repo /repo] [--verif /verif]
  gvc dump   --func <dir>::<name> [--repo /repo]      print the SMT stream of one function
  gvc replay <path>
  gvc list   [--property Cxx]`)
	os.Exit(2)
}

func main() {
	if len(os.Args) < 2 {
		usage()
	}
	cmd := os.Args[1]
	fs := flag.NewFlagSet(cmd, flag.ExitOnError)
	prop := fs.String("property", "", "property id")
	tier := fs.String("tier", os.Getenv("VERIF_TIER"), "quick|thorough")
	repo := fs.String("repo", "/repo", "repository root")
	verif := fs.String("verif", "/verif", "verif root")
	fn := fs.String("func", "", "function key")
	keep := fs.Bool("keep", false, "keep the scratch directory with the SMT queries")
	only := fs.String("only", "", "substring filter on function names (debugging)")
	verbose := fs.Bool("v", false, "verbose")
	level := fs.String("level", "", "evidence level for a partial claim (other); default proof when everything discharges")
	fs.Parse(os.Args[2:])
	if *level != "" {
		os.Setenv("GVC_LEVEL", *level)
	}
	if *tier == "" {
		*tier = "quick"
	}
	switch cmd {
	case "check":
		if *prop == "" {
			usage()
		}
		os.Exit(runCheck(*prop, *tier, *repo, *verif, *keep, *only, *verbose))
	case "dump":
		os.Exit(runDump(*fn, *repo, *verif))
	case "replay":
		if fs.NArg() < 1 {
			usage()
		}
		os.Exit(runReplay(fs.Arg(0), *repo, *verif))
	case "list":
		os.Exit(runList(*prop, *repo, *verif))
	case "annotate":
		os.Exit(runAnnotate(*repo, *verif))
	default:
		usage()
	}
}

func newVerifier(repo, verif, tier string) (*Verifier, error) {
	v := &Verifier{Repo: repo, VerifDir: verif, Module: "github.com/bmeg/grip", Tier: tier, Timeout: 10}
	if tier == "thorough" {
		v.Timeout = 60
	}
	if t := os.Getenv("GVC_TIMEOUT"); t != "" {
		v.Timeout, _ = strconv.Atoi(t)
	}
	db, err := loadContracts(repo)
	if err != nil {
		return nil, err
	}
	// shared extern contracts live in /verif/spec/*.gvc
	specs, _ := filepath.Glob(filepath.Join(verif, "spec", "*.gvc"))
	sort.Strings(specs)
	for _, f := range specs {
		if err := db.loadFile(verif, f); err != nil {
			return nil, err
		}
		db.Files = append(db.Files, f)
	}
	v.DB = db
	return v, nil
}

func runList(prop, repo, verif string) int {
	v, err := newVerifier(repo, verif, "quick")
	if err != nil {
		fmt.Fprintln(os.Stderr, err)
		return 2
	}
	for _, c := range v.DB.All {
		if prop == "" || c.HasProp(prop) {
			fmt.Printf("%-6s %-40s %s props=%v req=%d ens=%d loops=%d\n", c.Kind, c.Dir, c.Name, c.Props, len(c.Requires), len(c.Ensures), len(c.Loops))
		}
	}
	return 0
}

func runDump(key, repo, verif string) int {
	v, err := newVerifier(repo, verif, "quick")
	if err != nil {
		fmt.Fprintln(os.Stderr, err)
		return 2
	}
	c, ok := v.DB.ByKey[key]
	if !ok {
		fmt.Fprintln(os.Stderr, "no contract", key)
		return 2
	}
	pats := []string{"./" + c.Dir}
	if l := c.Options["load"]; l != "" {
		for _, d := range strings.Split(l, ",") {
			pats = append(pats, "./"+strings.TrimSpace(d))
		}
	}
	if err := v.load(pats); err != nil {
		fmt.Fprintln(os.Stderr, err)
		return 2
	}
	rep := v.verifyFunc(c)
	for _, o := range rep.Obligs {
		fmt.Println("=====", o.Name, o.Kind, o.Pos)
		if o.ex != nil {
			fmt.Println(o.render())
		}
	}
	fmt.Println("class", rep.Class, rep.ClassWhy)
	fmt.Println("unmodelled", rep.Unmodelled)
	fmt.Println("spec errors", v.specErrors)
	return 0
}

type KnownFinding struct {
	Property   string `json:"property"`
	Obligation string `json:"obligation"`
	Status     string `json:"status"` // known | fixed
	What       string `json:"what"`
	Input      string `json:"input,omitempty"`
	Commit     string `json:"commit,omitempty"`
}

func loadKnown(verif string) []KnownFinding {
	b, err := os.ReadFile(filepath.Join(verif, "known_findings.jsonl"))
	if err != nil {
		return nil
	}
	var out []KnownFinding
	for _, ln := range strings.Split(string(b), "\n") {
		ln = strings.TrimSpace(ln)
		if ln == "" || strings.HasPrefix(ln, "#") {
			continue
		}
		var k KnownFinding
		if json.Unmarshal([]byte(ln), &k) == nil {
			out = append(out, k)
		}
	}
	return out
}

func runCheck(prop, tier, repo, verif string, keep bool, only string, verbose bool) int {
	t0 := time.Now()
	seed, _ := strconv.Atoi(os.Getenv("VERIF_SEED"))
	v, err := newVerifier(repo, verif, tier)
	if err != nil {
		return engineFailure(prop, tier, verif, seed, t0, "loading contracts: "+err.Error())
	}
	// the standard-library facts the preludes assume are re-checked against the real
	// functions on small inputs by every run (a false axiom would make proofs vacuous)
	if bin := filepath.Join(verif, "bin", "validate_axioms"); fileExists(bin) {
		out, aerr := exec.Command(bin).CombinedOutput()
		if aerr != nil {
			return engineFailure(prop, tier, verif, seed, t0, "a library axiom of /verif/spec is contradicted by the real function: "+strings.TrimSpace(string(out)))
		}
		v.noteAssumed("library axioms of /verif/spec/*.smt2 (bytes.Join/Split/SplitN/HasPrefix/Compare, slicing, encodings, Sprintf, set counting): " + strings.TrimSpace(string(out)))
	}
	cs, pats := v.selectContracts(prop)
	if len(cs) == 0 {
		return engineFailure(prop, tier, verif, seed, t0, "no contracts are tagged with "+prop)
	}
	if len(pats) > 0 {
		if err := v.load(pats); err != nil {
			return engineFailure(prop, tier, verif, seed, t0, "loading packages (does the tree still compile with -tags verif?): "+err.Error())
		}
	}
	tLoad := time.Since(t0).Seconds()
	var reps []*FuncReport
	for _, c := range cs {
		if only != "" && !strings.Contains(c.Name, only) {
			continue
		}
		switch c.Kind {
		case "func":
			if c.Trusted {
				v.noteAssumed("trusted contract of " + c.Dir + "::" + c.Name)
				continue
			}
			reps = append(reps, v.verifyFunc(c))
		case "lemma":
			reps = append(reps, v.verifyLemma(c))
		}
	}
	tGen := time.Since(t0).Seconds() - tLoad
	scratch, err := os.MkdirTemp("", "gvc-"+prop+"-")
	if err != nil {
		return engineFailure(prop, tier, verif, seed, t0, err.Error())
	}
	if !keep {
		defer os.RemoveAll(scratch)
	} else {
		fmt.Println("scratch:", scratch)
	}
	var obs, canaries []*Oblig
	for _, r := range reps {
		obs = append(obs, r.Obligs...)
		if r.Canary != nil {
			canaries = append(canaries, r.Canary)
		}
	}
	for _, k := range loadKnown(verif) {
		if k.Status == "known" {
			for _, o := range obs {
				if o.Name == k.Obligation {
					o.Expected = true
				}
			}
		}
	}
	if tier != "thorough" {
		v.solveBundles(obs, scratch, 12)
	}
	v.solveAll(obs, scratch, tier == "thorough", 12)
	v.retryTimeouts(obs, scratch, tier == "thorough")
	v.solveAll(canaries, scratch, false, 8)
	return v.report(prop, tier, seed, reps, obs, canaries, t0, tLoad, tGen, verbose, scratch)
}

func engineFailure(prop, tier, verif string, seed int, t0 time.Time, msg string) int {
	// The check could not run at all: report it as a violation of the obligation
	// "machinery can generate the obligations" rather than passing vacuously.
	if d := os.Getenv("GVC_OUT"); d != "" {
		verif = d
	}
	os.MkdirAll(filepath.Join(verif, "replays"), 0o755)
	path := filepath.Join(verif, "replays", prop+"-engine.json")
	b, _ := json.MarshalIndent(map[string]interface{}{"property": prop, "obligation": "engine", "kind": "no-failing-input-found", "reason": msg}, "", " ")
	os.WriteFile(path, b, 0o644)
	ev := map[string]interface{}{
		"property_id": prop, "tier": tier, "seed": seed, "level": "other",
		"coverage":   map[string]interface{}{"explanation": "the check could not generate its obligations: " + msg, "obligations": 0, "discharged": 0},
		"wall_s":     time.Since(t0).Seconds(),
		"violations": 1,
	}
	writeJSON(filepath.Join(verif, "evidence", prop+".json"), ev)
	fmt.Printf("gvc: %s\n", msg)
	fmt.Printf("VIOLATION property=%s replay=%s no-failing-input-found\n", prop, path)
	return 1
}

func writeJSON(path string, v interface{}) {
	os.MkdirAll(filepath.Dir(path), 0o755)
	b, _ := json.MarshalIndent(v, "", " ")
	os.WriteFile(path, append(b, '\n'), 0o644)
}

func fileExists(p string) bool {
	st, err := os.Stat(p)
	return err == nil && !st.IsDir()
}
