package main

// Parser for the contract expression language (Gobra-flavoured infix syntax).
//
//   e ::= forall x, y :: e | exists x :: e
//       | e <==> e | e ==> e | e || e | e && e | e == e | e != e | e < e ...
//       | e + e | e - e | e * e | e / e | e % e | !e | -e
//       | f(e, ...) | e.f | e[e] | ident | int | "string" | (e) | old(e)
//
// The parser is untyped; typing happens in speceval.go where identifiers are
// resolved against the Go function under contract and the SMT prelude.

import (
	"fmt"
	"strings"
	"unicode"
)

type SKind int

const (
	SIdent SKind = iota
	SInt
	SStr
	SCall  // Name, Args
	SSel   // Args[0].Name
	SIndex // Args[0][Args[1]]
	SUn    // Name op, Args[0]
	SBin   // Name op, Args[0], Args[1]
	SQuant // Name forall|exists, Vars, Args[0]
)

type SExpr struct {
	Kind SKind
	Name string
	Args []*SExpr
	Vars []string // quantifier variables, optionally "x:Sort"
}

func (e *SExpr) String() string {
	switch e.Kind {
	case SIdent, SInt:
		return e.Name
	case SStr:
		return fmt.Sprintf("%q", e.Name)
	case SCall:
		as := []string{}
		for _, a := range e.Args {
			as = append(as, a.String())
		}
		return e.Name + "(" + strings.Join(as, ", ") + ")"
	case SSel:
		return e.Args[0].String() + "." + e.Name
	case SIndex:
		return e.Args[0].String() + "[" + e.Args[1].String() + "]"
	case SUn:
		return e.Name + e.Args[0].String()
	case SBin:
		return "(" + e.Args[0].String() + " " + e.Name + " " + e.Args[1].String() + ")"
	case SQuant:
		return e.Name + " " + strings.Join(e.Vars, ", ") + " :: " + e.Args[0].String()
	}
	return "?"
}

type tok struct {
	k string // "id", "int", "str", "op", "eof"
	s string
}

func lexSpec(src string) ([]tok, error) {
	var out []tok
	i := 0
	ops := []string{"<==>", "==>", "::", "&&", "||", "==", "!=", "<=", ">=", "<", ">", "+", "-", "*", "/", "%", "!", "(", ")", "[", "]", ",", ".", ":"}
	for i < len(src) {
		c := src[i]
		if c == ' ' || c == '\t' || c == '\n' {
			i++
			continue
		}
		if c == '"' {
			j := i + 1
			var sb strings.Builder
			for j < len(src) && src[j] != '"' {
				if src[j] == '\\' && j+1 < len(src) {
					j++
					switch src[j] {
					case 'n':
						sb.WriteByte('\n')
					case 't':
						sb.WriteByte('\t')
					case '0':
						sb.WriteByte(0)
					case 'x':
						if j+2 < len(src) {
							var b byte
							fmt.Sscanf(src[j+1:j+3], "%02x", &b)
							sb.WriteByte(b)
							j += 2
						}
					default:
						sb.WriteByte(src[j])
					}
					j++
					continue
				}
				sb.WriteByte(src[j])
				j++
			}
			if j >= len(src) {
				return nil, fmt.Errorf("unterminated string in %q", src)
			}
			out = append(out, tok{"str", sb.String()})
			i = j + 1
			continue
		}
		if unicode.IsDigit(rune(c)) {
			j := i
			for j < len(src) && (unicode.IsDigit(rune(src[j]))) {
				j++
			}
			out = append(out, tok{"int", src[i:j]})
			i = j
			continue
		}
		if unicode.IsLetter(rune(c)) || c == '_' || c == '$' {
			j := i
			for j < len(src) && (unicode.IsLetter(rune(src[j])) || unicode.IsDigit(rune(src[j])) || src[j] == '_' || src[j] == '$' || src[j] == '\'') {
				j++
			}
			out = append(out, tok{"id", src[i:j]})
			i = j
			continue
		}
		matched := false
		for _, op := range ops {
			if strings.HasPrefix(src[i:], op) {
				out = append(out, tok{"op", op})
				i += len(op)
				matched = true
				break
			}
		}
		if !matched {
			return nil, fmt.Errorf("bad character %q in spec %q", c, src)
		}
	}
	out = append(out, tok{"eof", ""})
	return out, nil
}

type specParser struct {
	toks []tok
	p    int
	src  string
}

func parseSpec(src string) (*SExpr, error) {
	toks, err := lexSpec(src)
	if err != nil {
		return nil, err
	}
	p := &specParser{toks: toks, src: src}
	e, err := p.expr(0)
	if err != nil {
		return nil, err
	}
	if p.peek().k != "eof" {
		return nil, fmt.Errorf("trailing tokens at %q in %q", p.peek().s, src)
	}
	return e, nil
}

func (p *specParser) peek() tok { return p.toks[p.p] }
func (p *specParser) next() tok  { t := p.toks[p.p]; p.p++; return t }
func (p *specParser) isOp(s string) bool {
	t := p.peek()
	return t.k == "op" && t.s == s
}

var binPrec = map[string]int{
	"<==>": 1, "==>": 2, "||": 3, "&&": 4,
	"==": 5, "!=": 5, "<": 5, "<=": 5, ">": 5, ">=": 5,
	"+": 6, "-": 6, "*": 7, "/": 7, "%": 7,
}

func (p *specParser) expr(minPrec int) (*SExpr, error) {
	t := p.peek()
	if t.k == "id" && (t.s == "forall" || t.s == "exists") {
		p.next()
		var vars []string
		for {
			v := p.next()
			if v.k != "id" {
				return nil, fmt.Errorf("quantifier variable expected in %q", p.src)
			}
			name := v.s
			if p.isOp(":") {
				p.next()
				ty := ""
				for !p.isOp(",") && !p.isOp("::") && p.peek().k != "eof" {
					ty += p.next().s
				}
				name += ":" + ty
			}
			vars = append(vars, name)
			if p.isOp(",") {
				p.next()
				continue
			}
			break
		}
		if !p.isOp("::") {
			return nil, fmt.Errorf(":: expected in %q", p.src)
		}
		p.next()
		body, err := p.expr(0)
		if err != nil {
			return nil, err
		}
		return &SExpr{Kind: SQuant, Name: t.s, Vars: vars, Args: []*SExpr{body}}, nil
	}
	lhs, err := p.unary()
	if err != nil {
		return nil, err
	}
	for {
		t := p.peek()
		if t.k != "op" {
			break
		}
		prec, ok := binPrec[t.s]
		if !ok || prec < minPrec {
			break
		}
		p.next()
		var rhs *SExpr
		if t.s == "==>" || t.s == "<==>" {
			rhs, err = p.expr(prec) // right assoc
		} else {
			rhs, err = p.expr(prec + 1)
		}
		if err != nil {
			return nil, err
		}
		lhs = &SExpr{Kind: SBin, Name: t.s, Args: []*SExpr{lhs, rhs}}
	}
	return lhs, nil
}

func (p *specParser) unary() (*SExpr, error) {
	if p.isOp("!") || p.isOp("-") {
		op := p.next().s
		e, err := p.unary()
		if err != nil {
			return nil, err
		}
		return &SExpr{Kind: SUn, Name: op, Args: []*SExpr{e}}, nil
	}
	return p.postfix()
}

func (p *specParser) postfix() (*SExpr, error) {
	e, err := p.primary()
	if err != nil {
		return nil, err
	}
	for {
		switch {
		case p.isOp("."):
			p.next()
			t := p.next()
			if t.k != "id" && t.k != "int" {
				return nil, fmt.Errorf("field name expected in %q", p.src)
			}
			if p.isOp("(") && e.Kind == SIdent && t.k == "id" {
				// pkg.Func(args): a call of a function of an imported package
				p.next()
				var args []*SExpr
				if !p.isOp(")") {
					for {
						a, err := p.expr(0)
						if err != nil {
							return nil, err
						}
						args = append(args, a)
						if p.isOp(",") {
							p.next()
							continue
						}
						break
					}
				}
				if !p.isOp(")") {
					return nil, fmt.Errorf(") expected in %q", p.src)
				}
				p.next()
				e = &SExpr{Kind: SCall, Name: e.Name + "." + t.s, Args: args}
				continue
			}
			e = &SExpr{Kind: SSel, Name: t.s, Args: []*SExpr{e}}
		case p.isOp("["):
			p.next()
			ix, err := p.expr(0)
			if err != nil {
				return nil, err
			}
			if !p.isOp("]") {
				return nil, fmt.Errorf("] expected in %q", p.src)
			}
			p.next()
			e = &SExpr{Kind: SIndex, Args: []*SExpr{e, ix}}
		default:
			return e, nil
		}
	}
}

func (p *specParser) primary() (*SExpr, error) {
	t := p.next()
	switch t.k {
	case "int":
		return &SExpr{Kind: SInt, Name: t.s}, nil
	case "str":
		return &SExpr{Kind: SStr, Name: t.s}, nil
	case "id":
		if p.isOp("(") {
			p.next()
			var args []*SExpr
			if !p.isOp(")") {
				for {
					a, err := p.expr(0)
					if err != nil {
						return nil, err
					}
					args = append(args, a)
					if p.isOp(",") {
						p.next()
						continue
					}
					break
				}
			}
			if !p.isOp(")") {
				return nil, fmt.Errorf(") expected in %q", p.src)
			}
			p.next()
			return &SExpr{Kind: SCall, Name: t.s, Args: args}, nil
		}
		return &SExpr{Kind: SIdent, Name: t.s}, nil
	case "op":
		if t.s == "(" {
			e, err := p.expr(0)
			if err != nil {
				return nil, err
			}
			if !p.isOp(")") {
				return nil, fmt.Errorf(") expected in %q", p.src)
			}
			p.next()
			return e, nil
		}
	}
	return nil, fmt.Errorf("unexpected token %q in %q", t.s, p.src)
}
