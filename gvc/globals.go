package main

// Package-level variables: a contract may ask (option globals=<dir>[,<dir>]) that the
// package initialiser be executed symbolically first, so that variables such as key
// prefixes or the method table hold their real initial values. A variable that some
// function other than init writes is havocked again afterwards (checked over the
// loaded packages), so only effectively-constant globals keep their values.

import (
	"strings"

	"golang.org/x/tools/go/ssa"
	"golang.org/x/tools/go/ssa/ssautil"
)

func (x *Exec) runPackageInits(dirs string) {
	for _, d := range strings.Split(dirs, ",") {
		d = strings.TrimSpace(d)
		if d == "" {
			continue
		}
		path := x.V.Module
		if d != "." {
			path += "/" + d
		}
		pkg := x.V.Pkgs[path]
		if pkg == nil {
			x.markA("globals: package " + path + " not loaded")
			continue
		}
		initFn := pkg.Func("init")
		if initFn == nil || initFn.Blocks == nil {
			continue
		}
		// the guard is false before the first (and only) run of init
		for name, m := range pkg.Members {
			if g, ok := m.(*ssa.Global); ok && name == "init$guard" {
				gv := x.val(g)
				if gv.Loc != nil {
					x.writeLoc(gv.Loc, "false")
				}
			}
		}
		x.initDepth++
		savedC := x.c
		x.reach = "true"
		x.inline(initFn, nil, nil, initFn.Pos())
		x.c = savedC
		x.initDepth--
		// globals written outside init are not constants: forget their values
		for _, g := range x.V.mutatedGlobals(pkg) {
			gv := x.val(g)
			if gv.Loc != nil && gv.Loc.Kind == LCell {
				x.getSV(gv.Loc.SV, gv.Loc.Sort)
				x.havocSV(gv.Loc.SV)
			}
		}
		x.V.noteAssumed("package-level variables of " + path + " hold the values their initialiser gives them (variables written by any loaded function other than init are excluded)")
	}
	// the state after initialisation is the function's entry state
	for k, t := range x.st {
		x.init[k] = t
	}
}

// mutatedGlobals: globals of pkg that some loaded function other than an init writes.
func (v *Verifier) mutatedGlobals(pkg *ssa.Package) []*ssa.Global {
	if v.mutGlobals == nil {
		v.mutGlobals = map[*ssa.Package][]*ssa.Global{}
	}
	if r, ok := v.mutGlobals[pkg]; ok {
		return r
	}
	seen := map[*ssa.Global]bool{}
	var out []*ssa.Global
	var visit func(f *ssa.Function)
	visit = func(f *ssa.Function) {
		if f == nil || f.Blocks == nil || f.Name() == "init" || strings.HasPrefix(f.Name(), "init#") {
			return
		}
		for _, b := range f.Blocks {
			for _, ins := range b.Instrs {
				if st, ok := ins.(*ssa.Store); ok {
					if g, ok := st.Addr.(*ssa.Global); ok && g.Pkg == pkg && !seen[g] {
						seen[g] = true
						out = append(out, g)
					}
				}
			}
		}
		for _, a := range f.AnonFuncs {
			visit(a)
		}
	}
	for f := range ssautil.AllFunctions(v.Prog) {
		if f.Parent() == nil {
			visit(f)
		}
	}
	v.mutGlobals[pkg] = out
	return out
}

// zeroArray: an array whose every element is the zero value. cvc5 accepts
// (as const ...) only with a value literal, so for sorts whose zero is a declared
// constant (strings, structs) the array is a fresh constant constrained pointwise.
func (x *Exec) zeroArray(so string, zero Term) Term {
	switch so {
	case "Int", "Bool", "Any", "Slice":
		return "((as const (Array Int " + so + ")) " + zero + ")"
	}
	a := x.smt.fresh("zeroarr", "(Array Int "+so+")")
	x.smt.assume("(forall ((i Int)) (! (= (select " + a + " i) " + zero + ") :pattern ((select " + a + " i))))")
	return a
}
