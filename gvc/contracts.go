package main

// Reader for the contract files: /repo/<pkg>/zz_contracts_verif.go
// (build tag verif, comment-only). See DESIGN.md §3.

import (
	"bufio"
	"fmt"
	"os"
	"path/filepath"
	"sort"
	"strconv"
	"strings"
)

type NamedExpr struct {
	Name   string
	Src    string
	E      *SExpr
	Line   int
	Callee string // callsite clauses: substring of the callee's key
}

type Contract struct {
	Kind     string // func | extern | iface | lemma
	Dir      string // directory (relative to repo root) of the declaring file
	Name     string // function name relative to its package (func) or full (extern/iface)
	Props    []string
	Lets     []NamedExpr
	Requires []NamedExpr
	CallSites []NamedExpr // 'callsite <callee> requires name: e': must hold (in the caller's state, args as arg0..) before each matching call
	Axioms   []NamedExpr // definitional axioms of spec functions over the heap (assumed, listed)
	Names    []NamedExpr // 'function' clauses: the result of a pure deterministic function named by a spec function (assumed at call sites, listed)
	Ensures  []NamedExpr
	Loops    map[int][]NamedExpr // loop ordinal (1-based, source order of headers) -> invariants
	LoopMods map[int][]string
	LoopAxioms map[int][]NamedExpr
	Pure     bool
	Modifies []string // state-variable name prefixes the function may modify
	NoPanic  bool
	Overflow bool
	Inline   bool
	Fresh    bool // extern: result is a freshly allocated reference
	Trusted  bool // extern/iface: assumed, not proved
	Params   []string // extern/iface: parameter names for use in the contract
	Vars     []string // func: the function's source variables in declaration order when the contract was annotated (varnames.go)
	Sorts    []string // extern/iface: optional sorts of parameters
	Lemma    *NamedExpr
	Options  map[string]string
	File     string
	Line     int
}

func (c *Contract) HasProp(p string) bool {
	for _, q := range c.Props {
		if q == p {
			return true
		}
	}
	return false
}

type ContractDB struct {
	All     []*Contract
	ByKey   map[string]*Contract // dir + "::" + name for func; name for extern/iface
	Lemmas  []*Contract
	Files   []string
	NLines  int
	Assumed []string // mechanical scan: every extern / iface / axiom-like declaration
}

func contractFiles(repo string) ([]string, error) {
	var files []string
	err := filepath.Walk(repo, func(p string, info os.FileInfo, err error) error {
		if err != nil {
			return nil
		}
		if info.IsDir() {
			b := filepath.Base(p)
			if b == ".git" || b == "node_modules" || b == "website" {
				return filepath.SkipDir
			}
			return nil
		}
		if filepath.Base(p) == "zz_contracts_verif.go" {
			files = append(files, p)
		}
		return nil
	})
	sort.Strings(files)
	return files, err
}

var directiveWords = map[string]bool{
	"property": true, "requires": true, "axiom": true, "function": true, "ensures": true, "let": true, "loop": true,
	"modifies": true, "pure": true, "nopanic": true, "overflow": true, "inline": true,
	"trusted": true, "params": true, "fresh": true, "option": true, "sorts": true, "callsite": true, "vars": true,
}

func loadContracts(repo string) (*ContractDB, error) {
	files, err := contractFiles(repo)
	if err != nil {
		return nil, err
	}
	db := &ContractDB{ByKey: map[string]*Contract{}, Files: files}
	for _, f := range files {
		if err := db.loadFile(repo, f); err != nil {
			return nil, err
		}
	}
	return db, nil
}

func (db *ContractDB) loadFile(repo, file string) error {
	fh, err := os.Open(file)
	if err != nil {
		return err
	}
	defer fh.Close()
	rel, _ := filepath.Rel(repo, filepath.Dir(file))
	sc := bufio.NewScanner(fh)
	sc.Buffer(make([]byte, 1<<20), 1<<20)
	var cur *Contract
	// pending directive text (joined continuation lines)
	var pend string
	var pendLine int
	flush := func() error {
		if pend == "" {
			return nil
		}
		defer func() { pend = "" }()
		return db.directive(cur, pend, file, pendLine)
	}
	ln := 0
	for sc.Scan() {
		ln++
		line := strings.TrimSpace(sc.Text())
		if !strings.HasPrefix(line, "//@") {
			continue
		}
		db.NLines++
		body := strings.TrimSpace(strings.TrimPrefix(line, "//@"))
		if body == "" {
			continue
		}
		// strip trailing comment "// ..." that is not inside a string
		if i := findComment(body); i >= 0 {
			body = strings.TrimSpace(body[:i])
		}
		first := strings.Fields(body)[0]
		switch first {
		case "func", "proc", "extern", "iface", "lemma":
			if err := flush(); err != nil {
				return err
			}
			rest := strings.TrimSpace(strings.TrimPrefix(body, first))
			c := &Contract{Kind: first, Dir: rel, File: file, Line: ln, Loops: map[int][]NamedExpr{}, LoopMods: map[int][]string{}, Options: map[string]string{}}
			if first == "proc" {
				c.Kind = "func"
			}
			if first == "lemma" {
				// lemma name: expr  (expr may continue on following lines)
				i := strings.Index(rest, ":")
				if i < 0 {
					// block form: lemma NAME followed by params / requires / ensures
					// directives; its expressions may call real functions of the
					// package named by 'option pkg=' (a "code lemma")
					c.Name = strings.TrimSpace(rest)
					cur = c
					db.All = append(db.All, c)
					db.Lemmas = append(db.Lemmas, c)
					continue
				}
				c.Name = strings.TrimSpace(rest[:i])
				cur = c
				pend = "lemmabody " + strings.TrimSpace(rest[i+1:])
				pendLine = ln
				db.All = append(db.All, c)
				db.Lemmas = append(db.Lemmas, c)
				continue
			}
			c.Name = rest
			if first == "extern" || first == "iface" {
				c.Trusted = true
			}
			cur = c
			db.All = append(db.All, c)
			key := c.Name
			if c.Kind == "func" {
				key = rel + "::" + c.Name
			}
			if _, dup := db.ByKey[key]; dup {
				return fmt.Errorf("%s:%d: duplicate contract for %s", file, ln, key)
			}
			db.ByKey[key] = c
		default:
			if cur == nil {
				return fmt.Errorf("%s:%d: directive outside a contract block", file, ln)
			}
			if directiveWords[first] {
				if err := flush(); err != nil {
					return err
				}
				pend = body
				pendLine = ln
			} else {
				if pend == "" {
					return fmt.Errorf("%s:%d: unknown directive %q", file, ln, first)
				}
				pend += " " + body
			}
		}
	}
	return flush()
}

func findComment(s string) int {
	inStr := false
	for i := 0; i+1 < len(s); i++ {
		if s[i] == '"' && (i == 0 || s[i-1] != '\\') {
			inStr = !inStr
		}
		if !inStr && s[i] == '/' && s[i+1] == '/' {
			return i
		}
	}
	return -1
}

func splitNameExpr(s string) (string, string) {
	// "name: expr" where name is an identifier; otherwise anonymous
	i := strings.Index(s, ":")
	if i > 0 && !strings.HasPrefix(s[i:], "::") {
		name := strings.TrimSpace(s[:i])
		ok := name != ""
		for _, r := range name {
			if !(r == '_' || r == '-' || r >= '0' && r <= '9' || r >= 'a' && r <= 'z' || r >= 'A' && r <= 'Z') {
				ok = false
			}
		}
		if ok {
			return name, strings.TrimSpace(s[i+1:])
		}
	}
	return "", strings.TrimSpace(s)
}

func (db *ContractDB) directive(c *Contract, body, file string, ln int) error {
	first := strings.Fields(body)[0]
	rest := strings.TrimSpace(strings.TrimPrefix(body, first))
	mk := func(s string, defName string) (NamedExpr, error) {
		name, src := splitNameExpr(s)
		if name == "" {
			name = defName
		}
		e, err := parseSpec(src)
		if err != nil {
			return NamedExpr{}, fmt.Errorf("%s:%d: %v", file, ln, err)
		}
		return NamedExpr{Name: name, Src: src, E: e, Line: ln}, nil
	}
	switch first {
	case "lemmabody":
		ne, err := mk(rest, c.Name)
		if err != nil {
			return err
		}
		ne.Name = c.Name
		c.Lemma = &ne
	case "property":
		c.Props = append(c.Props, strings.Fields(rest)...)
	case "requires":
		ne, err := mk(rest, fmt.Sprintf("r%d", len(c.Requires)+1))
		if err != nil {
			return err
		}
		c.Requires = append(c.Requires, ne)
	case "callsite":
		// callsite <callee substring> requires <name>: <expr>
		f := strings.Fields(rest)
		if len(f) < 3 || f[1] != "requires" {
			return fmt.Errorf("%s:%d: callsite <callee> requires <name>: <expr>", file, ln)
		}
		ne, err := mk(strings.TrimSpace(strings.SplitN(rest, "requires", 2)[1]), fmt.Sprintf("cs%d", len(c.CallSites)+1))
		if err != nil {
			return err
		}
		ne.Callee = f[0]
		c.CallSites = append(c.CallSites, ne)
	case "function":
		ne, err := mk(rest, fmt.Sprintf("f%d", len(c.Names)+1))
		if err != nil {
			return err
		}
		c.Names = append(c.Names, ne)
	case "axiom":
		ne, err := mk(rest, fmt.Sprintf("a%d", len(c.Axioms)+1))
		if err != nil {
			return err
		}
		c.Axioms = append(c.Axioms, ne)
	case "ensures":
		ne, err := mk(rest, fmt.Sprintf("e%d", len(c.Ensures)+1))
		if err != nil {
			return err
		}
		c.Ensures = append(c.Ensures, ne)
	case "let":
		i := strings.Index(rest, "=")
		if i < 0 {
			return fmt.Errorf("%s:%d: let needs name = expr", file, ln)
		}
		e, err := parseSpec(strings.TrimSpace(rest[i+1:]))
		if err != nil {
			return fmt.Errorf("%s:%d: %v", file, ln, err)
		}
		c.Lets = append(c.Lets, NamedExpr{Name: strings.TrimSpace(rest[:i]), Src: rest[i+1:], E: e, Line: ln})
	case "loop":
		// loop N invariant name: expr   |  loop N modifies a b c
		fs := strings.Fields(rest)
		if len(fs) < 2 {
			return fmt.Errorf("%s:%d: bad loop directive", file, ln)
		}
		n, err := strconv.Atoi(fs[0])
		if err != nil {
			return fmt.Errorf("%s:%d: loop ordinal: %v", file, ln, err)
		}
		after := strings.TrimSpace(strings.TrimPrefix(strings.TrimSpace(strings.TrimPrefix(rest, fs[0])), fs[1]))
		switch fs[1] {
		case "invariant":
			ne, err := mk(after, fmt.Sprintf("i%d", len(c.Loops[n])+1))
			if err != nil {
				return err
			}
			c.Loops[n] = append(c.Loops[n], ne)
		case "axiom":
			// a definitional axiom that mentions a variable computed before the loop
			// (assumed at the loop header, listed as an assumption)
			ne, err := mk(after, fmt.Sprintf("la%d", len(c.LoopAxioms[n])+1))
			if err != nil {
				return err
			}
			if c.LoopAxioms == nil {
				c.LoopAxioms = map[int][]NamedExpr{}
			}
			c.LoopAxioms[n] = append(c.LoopAxioms[n], ne)
		case "modifies":
			c.LoopMods[n] = append(c.LoopMods[n], strings.Fields(after)...)
		default:
			return fmt.Errorf("%s:%d: bad loop directive %q", file, ln, fs[1])
		}
	case "modifies":
		c.Modifies = append(c.Modifies, strings.Fields(rest)...)
	case "pure":
		c.Pure = true
	case "nopanic":
		c.NoPanic = true
	case "overflow":
		c.Overflow = true
	case "inline":
		c.Inline = true
	case "fresh":
		c.Fresh = true
	case "trusted":
		c.Trusted = true
	case "vars":
		// written by `gvc annotate`: the function's source variables in declaration order
		c.Vars = strings.Fields(rest)
	case "params":
		c.Params = strings.Fields(strings.ReplaceAll(rest, ",", " "))
	case "sorts":
		c.Sorts = strings.Fields(strings.ReplaceAll(rest, ",", " "))
	case "option":
		fs := strings.SplitN(rest, "=", 2)
		if len(fs) == 2 {
			c.Options[strings.TrimSpace(fs[0])] = strings.TrimSpace(fs[1])
		} else {
			c.Options[strings.TrimSpace(rest)] = "true"
		}
	default:
		return fmt.Errorf("%s:%d: unknown directive %q", file, ln, first)
	}
	return nil
}
