package main

// SMT-LIB emission: sorts, the base prelude, string literals, struct
// datatypes, type ids. One SMT context per function under verification.

import (
	"fmt"
	"go/types"
	"math"
	"sort"
	"strings"
	"sync"
)

type Term = string

const basePrelude = `
(declare-sort Str 0)
(define-sort F64 () (_ FloatingPoint 11 53))
(declare-datatypes ((Slice 0)) (((mk-slice (sref Int) (soff Int) (slen Int)))))
(declare-datatypes ((Any 0)) (((ANil) (ABool (abool Bool)) (ANum (anum F64)) (AStr (astr Str))
  (AInt (aikind Int) (aint Int)) (AList (alist Slice)) (AMap (amap Int))
  (APtr (atype Int) (aref Int)) (AOpaque (otype Int) (oval Int)))))
(declare-datatypes ((SL 0)) (((snil) (scons (shd Str) (stl SL)))))
(declare-fun strlen (Str) Int)
(declare-fun bzero (Int) Str)
(declare-fun bset (Str Int Int) Str)
(declare-fun bget (Str Int) Int)
(declare-fun sconcat (Str Str) Str)
(declare-const str_default Str)
(declare-fun nozero (Str) Bool)
(declare-fun hasprefix (Str Str) Bool)
(declare-fun containsAny (Str Str) Bool)
(declare-fun bjoin (SL Str) Str)
(declare-fun bsplit (Str Str) SL)
(declare-fun bsplitn (Str Str Int) SL)
(declare-fun ix (Int Int) Int)
(assert (forall ((a Int) (b Int)) (! (= (ix a b) (+ a b)) :pattern ((ix a b)))))
(declare-fun sllen (SL) Int)
(declare-fun slnth (SL Int) Str)
(define-fun go_div ((a Int) (b Int)) Int
  (ite (>= a 0) (ite (> b 0) (div a b) (- (div a (- b))))
                (ite (> b 0) (- (div (- a) b)) (div (- a) (- b)))))
(define-fun go_rem ((a Int) (b Int)) Int (- a (* b (go_div a b))))
(define-fun fzero () F64 (_ +zero 11 53))
`

type SMT struct {
	sorts     []string          // extra sort/datatype declarations in creation order
	structs   map[string]string // types.Type string -> sort name
	strlits   map[string]string
	strOrder  []string
	typeids   map[string]int
	tidOrder  []string
	preludes  []string // additional prelude texts (spec files)
	lines     []string // the function's definition / assumption stream
	owners    []int    // per line: index of the root-function block that emitted it (-1 = global)
	curOwner  int
	defs      map[string]string // name -> defining term, for Slice/Int abbreviations
	nfresh    int
	declared  map[string]bool
	funcSorts map[string]string // prelude function name -> result sort (for documentation only)
	mu        sync.Mutex
}

func newSMT() *SMT {
	return &SMT{curOwner: -1, structs: map[string]string{}, strlits: map[string]string{}, typeids: map[string]int{}, declared: map[string]bool{}}
}

func (s *SMT) emit(line string) {
	s.lines = append(s.lines, line)
	s.owners = append(s.owners, s.curOwner)
}

func smtName(n string) string {
	simple := true
	for _, r := range n {
		if !(r == '_' || r == '.' || r == '!' || r == '$' || r >= '0' && r <= '9' || r >= 'a' && r <= 'z' || r >= 'A' && r <= 'Z') {
			simple = false
			break
		}
	}
	if simple && n != "" && !(n[0] >= '0' && n[0] <= '9') {
		return n
	}
	return "|" + strings.ReplaceAll(strings.ReplaceAll(n, "|", "_"), "\\", "_") + "|"
}

func (s *SMT) fresh(prefix, sortName string) Term {
	s.nfresh++
	n := smtName(fmt.Sprintf("%s!%d", prefix, s.nfresh))
	s.emit(fmt.Sprintf("(declare-const %s %s)", n, sortName))
	return n
}

// define introduces a named abbreviation for a term (keeps formulas DAG-shaped).
func (s *SMT) define(prefix, sortName string, t Term) Term {
	if len(t) < 24 && !strings.Contains(t, "(ite") {
		return t
	}
	s.nfresh++
	n := smtName(fmt.Sprintf("%s!%d", prefix, s.nfresh))
	s.emit(fmt.Sprintf("(define-fun %s () %s %s)", n, sortName, t))
	if sortName == "Slice" {
		if s.defs == nil {
			s.defs = map[string]string{}
		}
		s.defs[n] = t
	}
	return n
}

func (s *SMT) assume(t Term) { s.emit("(assert " + t + ")") }

func (s *SMT) strLit(v string) Term {
	if n, ok := s.strlits[v]; ok {
		return n
	}
	n := fmt.Sprintf("S!%d", len(s.strlits))
	s.strlits[v] = n
	s.strOrder = append(s.strOrder, v)
	return n
}

func (s *SMT) typeID(t string) int {
	if id, ok := s.typeids[t]; ok {
		return id
	}
	id := len(s.typeids) + 1
	s.typeids[t] = id
	s.tidOrder = append(s.tidOrder, t)
	return id
}

func intLit(n int64) Term {
	if n < 0 {
		return fmt.Sprintf("(- %d)", -n)
	}
	return fmt.Sprintf("%d", n)
}

func floatLit(f float64) Term {
	b := math.Float64bits(f)
	sign := b >> 63
	exp := (b >> 52) & 0x7ff
	man := b & ((1 << 52) - 1)
	return fmt.Sprintf("(fp #b%01b #b%011b #b%052b)", sign, exp, man)
}

func and(ts ...Term) Term {
	var xs []Term
	for _, t := range ts {
		if t == "true" || t == "" {
			continue
		}
		if t == "false" {
			return "false"
		}
		xs = append(xs, t)
	}
	switch len(xs) {
	case 0:
		return "true"
	case 1:
		return xs[0]
	}
	return "(and " + strings.Join(xs, " ") + ")"
}

func or(ts ...Term) Term {
	var xs []Term
	for _, t := range ts {
		if t == "false" || t == "" {
			continue
		}
		if t == "true" {
			return "true"
		}
		xs = append(xs, t)
	}
	switch len(xs) {
	case 0:
		return "false"
	case 1:
		return xs[0]
	}
	return "(or " + strings.Join(xs, " ") + ")"
}

func not(t Term) Term {
	switch t {
	case "true":
		return "false"
	case "false":
		return "true"
	}
	if strings.HasPrefix(t, "(not ") && balancedTail(t[5:len(t)-1]) {
		return t[5 : len(t)-1]
	}
	return "(not " + t + ")"
}

func balancedTail(s string) bool {
	d := 0
	for i, c := range s {
		if c == '(' {
			d++
		}
		if c == ')' {
			d--
			if d == 0 && i != len(s)-1 {
				return false
			}
			if d < 0 {
				return false
			}
		}
		if c == ' ' && d == 0 {
			return false
		}
	}
	return d == 0
}

func implies(a, b Term) Term {
	if a == "true" {
		return b
	}
	if a == "false" || b == "true" {
		return "true"
	}
	return "(=> " + a + " " + b + ")"
}

func ite(c, a, b Term) Term {
	if c == "true" {
		return a
	}
	if c == "false" {
		return b
	}
	if a == b {
		return a
	}
	return "(ite " + c + " " + a + " " + b + ")"
}

func eq(a, b Term) Term {
	if a == b {
		return "true"
	}
	return "(= " + a + " " + b + ")"
}

func app(f string, args ...Term) Term {
	if len(args) == 0 {
		return f
	}
	return "(" + f + " " + strings.Join(args, " ") + ")"
}

// ---- sorts -------------------------------------------------------------------

func isByteSlice(t types.Type) bool {
	if sl, ok := t.Underlying().(*types.Slice); ok {
		if b, ok := sl.Elem().Underlying().(*types.Basic); ok {
			return b.Kind() == types.Uint8
		}
	}
	return false
}

func isByteArray(t types.Type) bool {
	if a, ok := t.Underlying().(*types.Array); ok {
		if b, ok := a.Elem().Underlying().(*types.Basic); ok {
			return b.Kind() == types.Uint8
		}
	}
	return false
}

func (s *SMT) sortOf(t types.Type) string {
	switch u := t.Underlying().(type) {
	case *types.Basic:
		switch {
		case u.Info()&types.IsBoolean != 0:
			return "Bool"
		case u.Info()&types.IsInteger != 0:
			return "Int"
		case u.Info()&types.IsFloat != 0:
			return "F64"
		case u.Info()&types.IsString != 0:
			return "Str"
		case u.Kind() == types.UnsafePointer:
			return "Int"
		case u.Kind() == types.UntypedNil:
			return "Int"
		}
		return "Int"
	case *types.Pointer:
		if isByteArray(u.Elem()) {
			return "Int" // boxed Str
		}
		if _, ok := u.Elem().Underlying().(*types.Array); ok {
			return "Slice"
		}
		return "Int"
	case *types.Slice:
		if isByteSlice(t) {
			return "Str"
		}
		return "Slice"
	case *types.Array:
		if isByteArray(t) {
			return "Str"
		}
		return "Slice"
	case *types.Map, *types.Chan, *types.Signature:
		return "Int"
	case *types.Interface:
		return "Any"
	case *types.Struct:
		return s.structSort(t, u)
	case *types.Tuple:
		return "Int"
	}
	return "Int"
}

func (s *SMT) structSort(t types.Type, u *types.Struct) string {
	key := canonType(t).String()
	if n, ok := s.structs[key]; ok {
		return n
	}
	name := smtName("S_" + shortType(key))
	s.structs[key] = name
	if u.NumFields() == 0 {
		s.sorts = append(s.sorts, fmt.Sprintf("(declare-datatypes ((%s 0)) (((%s))))", name, ctorName(name)))
		return name
	}
	var fs []string
	for i := 0; i < u.NumFields(); i++ {
		f := u.Field(i)
		fs = append(fs, fmt.Sprintf("(%s %s)", s.fieldSel(name, f.Name(), i), s.sortOf(f.Type())))
	}
	s.sorts = append(s.sorts, fmt.Sprintf("(declare-datatypes ((%s 0)) (((%s %s))))", name, ctorName(name), strings.Join(fs, " ")))
	return name
}

func ctorName(sortName string) string {
	return smtName("mk_" + strings.Trim(sortName, "|"))
}

func (s *SMT) fieldSel(sortName, field string, i int) string {
	if field == "_" {
		// blank fields may repeat within one struct
		return smtName(fmt.Sprintf("%s._%d", strings.Trim(sortName, "|"), i))
	}
	return smtName(fmt.Sprintf("%s.%s", strings.Trim(sortName, "|"), field))
}

func shortType(t string) string {
	t = strings.ReplaceAll(t, "github.com/bmeg/grip/", "")
	t = strings.ReplaceAll(t, "github.com/", "")
	t = strings.ReplaceAll(t, "google.golang.org/protobuf/types/known/", "")
	r := strings.NewReplacer("/", "_", " ", "_", "{", "_", "}", "_", ";", "_", "*", "P", "[", "_", "]", "_", "(", "_", ")", "_", ",", "_")
	return r.Replace(t)
}

func (s *SMT) zero(t types.Type) Term {
	switch s.sortOf(t) {
	case "Bool":
		return "false"
	case "Int":
		return "0"
	case "F64":
		return "fzero"
	case "Str":
		if isByteArray(t) {
			return fmt.Sprintf("(bzero %d)", t.Underlying().(*types.Array).Len())
		}
		return s.strLit("")
	case "Slice":
		return "(mk-slice 0 0 0)"
	case "Any":
		return "ANil"
	}
	if u, ok := t.Underlying().(*types.Struct); ok {
		name := s.structSort(t, u)
		if u.NumFields() == 0 {
			return ctorName(name)
		}
		var zs []string
		for i := 0; i < u.NumFields(); i++ {
			zs = append(zs, s.zero(u.Field(i).Type()))
		}
		return "(" + ctorName(name) + " " + strings.Join(zs, " ") + ")"
	}
	return "0"
}

// header renders everything that precedes the function's own line stream.
func (s *SMT) header(logicOpts string) string {
	// queries of one function are rendered concurrently, and rendering may intern the
	// string constants of the preludes: serialise it
	s.mu.Lock()
	defer s.mu.Unlock()
	var sb strings.Builder
	sb.WriteString(logicOpts)
	sb.WriteString(basePrelude)
	for _, d := range s.sorts {
		sb.WriteString(d + "\n")
	}
	for _, p := range s.preludes {
		sb.WriteString(p + "\n")
	}
	for _, sc := range s.strConsts() {
		s.strLit(sc[1]) // make sure the literal exists before the literal section
	}
	// string literals
	if len(s.strOrder) > 0 {
		var names []string
		for _, v := range s.strOrder {
			n := s.strlits[v]
			names = append(names, n)
			sb.WriteString(fmt.Sprintf("(declare-const %s Str) ; %q\n", n, v))
			sb.WriteString(fmt.Sprintf("(assert (= (strlen %s) %d))\n", n, len(v)))
		}
		if len(names) > 1 {
			sb.WriteString("(assert (distinct " + strings.Join(names, " ") + "))\n")
		}
		for _, hook := range s.literalHooks() {
			sb.WriteString(hook + "\n")
		}
	}
	if len(s.tidOrder) > 0 {
		ids := append([]string{}, s.tidOrder...)
		sort.Strings(ids)
		for _, t := range ids {
			sb.WriteString(fmt.Sprintf("; typeid %d = %s\n", s.typeids[t], t))
		}
	}
	return sb.String()
}

// literalHooks: concrete facts about string literals for predicates declared by
// the loaded preludes (a prelude opts in with a line "; @literal <pred>").
// strConsts: named string constants a prelude declares ("; @strconst NAME "value"");
// each is tied to the engine's literal of that value.
func (s *SMT) strConsts() [][2]string {
	var out [][2]string
	for _, p := range s.preludes {
		for _, ln := range strings.Split(p, "\n") {
			ln = strings.TrimSpace(ln)
			if strings.HasPrefix(ln, "; @strconst ") {
				fs := strings.SplitN(strings.TrimPrefix(ln, "; @strconst "), " ", 2)
				if len(fs) == 2 {
					var v string
					if _, err := fmt.Sscanf(fs[1], "%q", &v); err == nil {
						out = append(out, [2]string{fs[0], v})
					}
				}
			}
		}
	}
	return out
}

func (s *SMT) literalHooks() []string {
	var out []string
	for _, sc := range s.strConsts() {
		out = append(out, fmt.Sprintf("(assert (= %s %s))", sc[0], s.strLit(sc[1])))
	}
	want := map[string]bool{"nozero": true}
	for _, p := range s.preludes {
		for _, ln := range strings.Split(p, "\n") {
			ln = strings.TrimSpace(ln)
			if strings.HasPrefix(ln, "; @literal ") {
				want[strings.TrimSpace(strings.TrimPrefix(ln, "; @literal "))] = true
			}
		}
	}
	b := func(v bool) string {
		if v {
			return "true"
		}
		return "false"
	}
	for _, v := range s.strOrder {
		n := s.strlits[v]
		if want["nozero"] {
			out = append(out, fmt.Sprintf("(assert (= (nozero %s) %s))", n, b(!strings.Contains(v, "\x00"))))
		}
		if want["bzero"] && len(v) == 0 {
			out = append(out, fmt.Sprintf("(assert (= (bzero 0) %s))", n))
		}
		if want["nodot"] {
			out = append(out, fmt.Sprintf("(assert (= (nodot %s) %s))", n, b(!strings.Contains(v, "."))))
		}
		if want["isempty"] {
			out = append(out, fmt.Sprintf("(assert (= (isempty %s) %s))", n, b(len(v) == 0)))
		}
		if want["nodash"] {
			out = append(out, fmt.Sprintf("(assert (= (nodash %s) %s))", n, b(!strings.Contains(v, "-"))))
		}
		if want["sqlfixed"] {
			// program constants are fixed statement text
			out = append(out, fmt.Sprintf("(assert (sqlfixed %s))", n))
		}
		if want["firstbyte"] && len(v) >= 1 {
			out = append(out, fmt.Sprintf("(assert (= (bget %s 0) %d))", n, v[0]))
		}
	}
	if want["hasprefix"] {
		for _, a := range s.strOrder {
			for _, p := range s.strOrder {
				out = append(out, fmt.Sprintf("(assert (= (hasprefix %s %s) %s))", s.strlits[a], s.strlits[p], b(strings.HasPrefix(a, p))))
			}
		}
	}
	return out
}
