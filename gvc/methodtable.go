package main

// The table of exposed RPC methods, extracted on every run from the generated gRPC
// service descriptors in /repo/gripql/gripql_grpc.pb.go (never written down by hand):
// full method name, unary / server-stream / client-stream, and the request message
// type taken from the generated handler (`in := new(T)` / `m := new(T)`).

import (
	"fmt"
	"go/ast"
	"go/parser"
	"go/token"
	"go/types"
	"path/filepath"
	"sort"
	"strconv"
	"strings"
)

type RPCMethod struct {
	Full    string
	Kind    string // unary | sstream | cstream
	ReqType string // name of the request message type in package gripql
}

func (v *Verifier) methodTable() ([]RPCMethod, error) {
	if v.rpcMethods != nil || v.rpcErr != nil {
		return v.rpcMethods, v.rpcErr
	}
	file := filepath.Join(v.Repo, "gripql", "gripql_grpc.pb.go")
	fset := token.NewFileSet()
	f, err := parser.ParseFile(fset, file, nil, 0)
	if err != nil {
		v.rpcErr = err
		return nil, err
	}
	// request type per handler function: the first new(T) in its body
	reqOf := map[string]string{}
	for _, d := range f.Decls {
		fd, ok := d.(*ast.FuncDecl)
		if !ok || fd.Body == nil || !strings.HasSuffix(fd.Name.Name, "_Handler") {
			continue
		}
		ast.Inspect(fd.Body, func(n ast.Node) bool {
			if _, done := reqOf[fd.Name.Name]; done {
				return false
			}
			if ce, ok := n.(*ast.CallExpr); ok {
				if id, ok := ce.Fun.(*ast.Ident); ok && id.Name == "new" && len(ce.Args) == 1 {
					if t, ok := ce.Args[0].(*ast.Ident); ok {
						reqOf[fd.Name.Name] = t.Name
						return false
					}
				}
			}
			return true
		})
	}
	var out []RPCMethod
	ast.Inspect(f, func(n ast.Node) bool {
		cl, ok := n.(*ast.CompositeLit)
		if !ok {
			return true
		}
		se, ok := cl.Type.(*ast.SelectorExpr)
		if !ok || se.Sel.Name != "ServiceDesc" {
			return true
		}
		service := ""
		var methods []RPCMethod
		for _, el := range cl.Elts {
			kv, ok := el.(*ast.KeyValueExpr)
			if !ok {
				continue
			}
			key := kv.Key.(*ast.Ident).Name
			switch key {
			case "ServiceName":
				if bl, ok := kv.Value.(*ast.BasicLit); ok {
					service, _ = strconv.Unquote(bl.Value)
				}
			case "Methods", "Streams":
				list, ok := kv.Value.(*ast.CompositeLit)
				if !ok {
					continue
				}
				for _, m := range list.Elts {
					ml, ok := m.(*ast.CompositeLit)
					if !ok {
						continue
					}
					rm := RPCMethod{Kind: "unary"}
					for _, f2 := range ml.Elts {
						kv2, ok := f2.(*ast.KeyValueExpr)
						if !ok {
							continue
						}
						switch kv2.Key.(*ast.Ident).Name {
						case "MethodName", "StreamName":
							if bl, ok := kv2.Value.(*ast.BasicLit); ok {
								rm.Full, _ = strconv.Unquote(bl.Value)
							}
						case "Handler":
							if id, ok := kv2.Value.(*ast.Ident); ok {
								rm.ReqType = reqOf[id.Name]
							}
						case "ServerStreams":
							if id, ok := kv2.Value.(*ast.Ident); ok && id.Name == "true" {
								rm.Kind = "sstream"
							}
						case "ClientStreams":
							if id, ok := kv2.Value.(*ast.Ident); ok && id.Name == "true" {
								rm.Kind = "cstream"
							}
						}
					}
					if key == "Streams" && rm.Kind == "unary" {
						rm.Kind = "sstream"
					}
					methods = append(methods, rm)
				}
			}
		}
		for _, m := range methods {
			m.Full = "/" + service + "/" + m.Full
			out = append(out, m)
		}
		return false
	})
	sort.Slice(out, func(i, j int) bool { return out[i].Full < out[j].Full })
	if len(out) == 0 {
		v.rpcErr = fmt.Errorf("no service descriptors found in %s", file)
		return nil, v.rpcErr
	}
	for _, m := range out {
		// client-stream handlers read their messages through a generated Recv method;
		// only unary and server-stream methods carry one request message
		if m.ReqType == "" && m.Kind != "cstream" {
			v.rpcErr = fmt.Errorf("request type of %s not found", m.Full)
			return nil, v.rpcErr
		}
	}
	v.rpcMethods = out
	return out, nil
}

// methodTableBuiltin implements the spec functions exposedUnary(m), exposedServerStream(m),
// exposedClientStream(m), reqtype(m) and reqgraph(req).
func (env *SpecEnv) methodTableBuiltin(name string, args []SpecVal) (SpecVal, bool, error) {
	x := env.x
	switch name {
	case "exposedUnary", "exposedServerStream", "exposedClientStream", "reqtype", "reqgraph":
	default:
		return SpecVal{}, false, nil
	}
	tab, err := x.V.methodTable()
	if err != nil {
		return SpecVal{}, true, err
	}
	if len(args) != 1 {
		return SpecVal{}, true, fmt.Errorf("%s takes one argument", name)
	}
	a := env.term(args[0])
	var gripql *types.Package
	if env.pkg != nil {
		if env.pkg.Name() == "gripql" {
			gripql = env.pkg
		}
		for _, imp := range env.pkg.Imports() {
			if imp.Name() == "gripql" {
				gripql = imp
			}
		}
	}
	if gripql == nil {
		return SpecVal{}, true, fmt.Errorf("%s: package gripql is not imported by the function under contract", name)
	}
	tidOf := func(t string) (int, types.Type, error) {
		obj := gripql.Scope().Lookup(t)
		if obj == nil {
			return 0, nil, fmt.Errorf("request type %s not found in package gripql", t)
		}
		pt := types.NewPointer(obj.Type())
		return x.smt.typeID(pt.String()), obj.Type(), nil
	}
	switch name {
	case "exposedUnary", "exposedServerStream", "exposedClientStream":
		want := map[string]string{"exposedUnary": "unary", "exposedServerStream": "sstream", "exposedClientStream": "cstream"}[name]
		var ds []Term
		for _, m := range tab {
			if m.Kind == want {
				ds = append(ds, eq(a, x.smt.strLit(m.Full)))
			}
		}
		x.V.noteAssumed("method table extracted from gripql/gripql_grpc.pb.go service descriptors (" + strconv.Itoa(len(tab)) + " methods)")
		return SpecVal{V: tv(or(ds...)), Go: types.Typ[types.Bool]}, true, nil
	case "reqtype":
		t := "0"
		for i := len(tab) - 1; i >= 0; i-- {
			if tab[i].ReqType == "" {
				continue
			}
			id, _, err := tidOf(tab[i].ReqType)
			if err != nil {
				return SpecVal{}, true, err
			}
			t = ite(eq(a, x.smt.strLit(tab[i].Full)), intLit(int64(id)), t)
		}
		return SpecVal{V: tv(t), Go: types.Typ[types.Int]}, true, nil
	case "reqgraph":
		// the graph a request names: its Graph field when its type has one, else "*"
		seen := map[string]bool{}
		t := x.smt.strLit("*")
		for i := len(tab) - 1; i >= 0; i-- {
			rt := tab[i].ReqType
			if seen[rt] || rt == "" {
				continue
			}
			seen[rt] = true
			id, gt, err := tidOf(rt)
			if err != nil {
				return SpecVal{}, true, err
			}
			st, ok := gt.Underlying().(*types.Struct)
			if !ok {
				continue
			}
			for f := 0; f < st.NumFields(); f++ {
				if st.Field(f).Name() == "Graph" && x.smt.sortOf(st.Field(f).Type()) == "Str" {
					rd := x.readLoc(x.fieldLoc("(aref "+a+")", gt, f))
					t = ite(fmt.Sprintf("(and ((_ is APtr) %s) (= (atype %s) %d))", a, a, id), rd, t)
				}
			}
		}
		return SpecVal{V: tv(t), Go: types.Typ[types.String]}, true, nil
	}
	return SpecVal{}, false, nil
}
