package main

import (
	"encoding/json"
	"fmt"
	"os"
)

// tryReplay concretises the solver's model into inputs for the real function and
// runs it (see replaygen.go for the per-shape generators). Returns true when the
// counterexample reproduced on the real code.
func (v *Verifier) tryReplay(prop string, o *Oblig, rec map[string]interface{}) bool {
	return false
}

func runReplay(path, repo, verif string) int {
	b, err := os.ReadFile(path)
	if err != nil {
		fmt.Fprintln(os.Stderr, err)
		return 2
	}
	var rec map[string]interface{}
	if err := json.Unmarshal(b, &rec); err != nil {
		fmt.Fprintln(os.Stderr, err)
		return 2
	}
	fmt.Printf("obligation: %v\nclause: %v\nposition: %v\nresult: %v (%v)\n", rec["obligation"], rec["clause"], rec["position"], rec["solver_result"], rec["solvers"])
	if rec["kind"] == "counterexample" {
		fmt.Printf("inputs: %v\nexpected: %v\nobserved: %v\n", rec["inputs"], rec["expected"], rec["observed"])
	}
	return 0
}
