package main

import (
	"context"
	"encoding/json"
	"fmt"
	"go/types"
	"os"
	"os/exec"
	"path/filepath"
	"sort"
	"strings"
	"time"

	"golang.org/x/tools/go/ssa"
)

// tryReplay runs the real function on a concrete input and reports whether the failure
// the obligation describes shows up. It is implemented for one shape only: a refuted
// (sat) safety obligation of a top-level function or method. The input is the "empty
// heap" instance of the solver's counterexample: every pointer parameter (and the
// receiver) points to a zero-valued struct, so every pointer, map, slice, interface and
// channel field is nil and every string empty; other parameters are zero values. The
// function is called from a test injected with `go test -overlay` (nothing is written to
// the repository); a panic is the failing run. Anything else - closures, functional
// postconditions, models that need a populated heap - is not replayed, and the
// VIOLATION line then ends with no-failing-input-found.
func (v *Verifier) tryReplay(prop string, o *Oblig, rec map[string]interface{}) bool {
	if os.Getenv("GVC_NOREPLAY") != "" || o.ex == nil || o.Status != "failed" {
		return false
	}
	if !strings.HasPrefix(o.Kind, "safe") && !strings.Contains(o.Name, "#safe:") {
		return false
	}
	fn := o.ex.root().fn
	if fn == nil || fn.Parent() != nil || fn.Pkg == nil || fn.Synthetic != "" {
		return false
	}
	if o.Func != v.funcKey(fn) {
		return false // the failing instruction is inside an inlined callee or a closure
	}
	// the instance must satisfy the contract's preconditions: it does when they only ask
	// for non-nil parameters (which the instance provides); otherwise no replay
	if c := o.ex.root().c; c != nil {
		for _, r := range c.Requires {
			if !onlyNonNilParams(r.E) {
				return false
			}
		}
	}
	pkg := fn.Pkg.Pkg
	dir := strings.TrimPrefix(strings.TrimPrefix(pkg.Path(), v.Module), "/")
	if dir == "" {
		dir = "."
	}
	imports := map[string]string{}
	qual := func(p *types.Package) string {
		if p == pkg {
			return ""
		}
		imports[p.Path()] = p.Name()
		return p.Name()
	}
	zero := func(t types.Type) (string, bool) {
		ts := types.TypeString(t, qual)
		if strings.Contains(ts, "/") { // an unresolved qualifier (vendored / internal path)
			return "", false
		}
		if pt, ok := t.(*types.Pointer); ok {
			if _, isStruct := pt.Elem().Underlying().(*types.Struct); isStruct {
				return "&" + types.TypeString(pt.Elem(), qual) + "{}", true
			}
		}
		return "*new(" + ts + ")", true
	}
	sig := fn.Signature
	var decls, args, desc []string
	call := ""
	if sig.Recv() != nil {
		z, ok := zero(sig.Recv().Type())
		if !ok {
			return false
		}
		decls = append(decls, "recv := "+z)
		desc = append(desc, "receiver = "+z)
		call = "recv." + fn.Name()
	} else {
		call = fn.Name()
	}
	for i := 0; i < sig.Params().Len(); i++ {
		p := sig.Params().At(i)
		z, ok := zero(p.Type())
		if !ok {
			return false
		}
		if sig.Variadic() && i == sig.Params().Len()-1 {
			continue // no variadic arguments
		}
		decls = append(decls, fmt.Sprintf("a%d := %s", i, z))
		args = append(args, fmt.Sprintf("a%d", i))
		n := p.Name()
		if n == "" {
			n = fmt.Sprintf("arg%d", i)
		}
		desc = append(desc, n+" = "+z)
	}
	// unexported foreign names cannot be written down
	for path := range imports {
		if strings.Contains(path, "/internal/") || strings.HasSuffix(path, "/internal") {
			return false
		}
	}
	var imps []string
	for path := range imports {
		imps = append(imps, fmt.Sprintf("\t%q", path))
	}
	sort.Strings(imps)
	src := "package " + pkg.Name() + "\n\nimport (\n\t\"fmt\"\n\t\"runtime/debug\"\n\t\"strings\"\n\t\"testing\"\n" + strings.Join(imps, "\n") + "\n)\n\n" +
		"func TestGvcReplay(t *testing.T) {\n" +
		"\tdefer func() {\n\t\tif r := recover(); r != nil {\n\t\t\tfmt.Println(\"GVC-REPLAY-PANIC:\", r)\n\t\t\tfmt.Println(\"GVC-REPLAY-STACK:\", strings.ReplaceAll(string(debug.Stack()), \"\\n\", \" | \"))\n\t\t}\n\t}()\n\t" +
		strings.Join(decls, "\n\t") + "\n\t" + call + "(" + strings.Join(args, ", ") + ")\n" +
		"\tfmt.Println(\"GVC-REPLAY-NOPANIC\")\n}\n"
	tmp, err := os.MkdirTemp("", "gvc-replay-")
	if err != nil {
		return false
	}
	defer os.RemoveAll(tmp)
	testFile := filepath.Join(tmp, "zz_gvc_replay_test.go")
	os.WriteFile(testFile, []byte(src), 0o644)
	target := filepath.Join(v.Repo, dir, "zz_gvc_replay_test.go")
	ov, _ := json.Marshal(map[string]map[string]string{"Replace": {target: testFile}})
	ovFile := filepath.Join(tmp, "overlay.json")
	os.WriteFile(ovFile, ov, 0o644)
	ctx, cancel := context.WithTimeout(context.Background(), 120*time.Second)
	defer cancel()
	cmd := exec.CommandContext(ctx, "go", "test", "-overlay", ovFile, "-vet=off", "-v", "-count=1", "-timeout", "60s", "-run", "^TestGvcReplay$", "./"+dir)
	cmd.Dir = v.Repo
	cmd.Env = append(os.Environ(), "GOFLAGS=-mod=mod", "GOPROXY=off", "GOSUMDB=off", "GOTOOLCHAIN=local")
	out, _ := cmd.CombinedOutput()
	text := string(out)
	rec["replay_test"] = src
	rec["replay_cmd"] = "go test -overlay <overlay injecting the test above as " + target + "> -vet=off -run ^TestGvcReplay$ ./" + dir
	// the run counts only when the panic comes from the instruction the obligation is
	// about: its source position must be on the panicking goroutine's stack
	panicMsg, stack := "", ""
	for _, ln := range strings.Split(text, "\n") {
		if strings.HasPrefix(ln, "GVC-REPLAY-PANIC:") {
			panicMsg = strings.TrimSpace(strings.TrimPrefix(ln, "GVC-REPLAY-PANIC:"))
		}
		if strings.HasPrefix(ln, "GVC-REPLAY-STACK:") {
			stack = ln
		}
	}
	if panicMsg != "" {
		if o.Pos != "" && strings.Contains(stack, "/"+o.Pos+" ") {
			rec["inputs"] = strings.Join(desc, "; ")
			rec["expected"] = "no panic (" + o.Src + ")"
			rec["observed"] = panicMsg
			return true
		}
		rec["replay_note"] = "the empty-heap instance panics (" + panicMsg + ") but not at " + o.Pos + ": not counted as a replay of this obligation"
	}
	rec["replay_output"] = firstLines(text, 12)
	return false
}

func runReplay(path, repo, verif string) int {
	b, err := os.ReadFile(path)
	if err != nil {
		fmt.Fprintln(os.Stderr, err)
		return 2
	}
	var rec map[string]interface{}
	if err := json.Unmarshal(b, &rec); err != nil {
		fmt.Fprintln(os.Stderr, err)
		return 2
	}
	fmt.Printf("obligation: %v\nclause: %v\nposition: %v\nresult: %v (%v)\n", rec["obligation"], rec["clause"], rec["position"], rec["solver_result"], rec["solvers"])
	if rec["kind"] == "counterexample" {
		fmt.Printf("inputs: %v\nexpected: %v\nobserved: %v\n", rec["inputs"], rec["expected"], rec["observed"])
		if t, ok := rec["replay_test"].(string); ok {
			fmt.Printf("test injected into the package of the function:\n%s\n", t)
		}
	}
	return 0
}

var _ = ssa.BuilderMode(0)

// onlyNonNilParams: the clause is a conjunction of `<identifier> != nil`.
func onlyNonNilParams(e *SExpr) bool {
	if e == nil {
		return false
	}
	if e.Kind == SBin && e.Name == "&&" {
		return onlyNonNilParams(e.Args[0]) && onlyNonNilParams(e.Args[1])
	}
	if e.Kind == SBin && e.Name == "!=" && len(e.Args) == 2 {
		return e.Args[0].Kind == SIdent && e.Args[1].Kind == SIdent && e.Args[1].Name == "nil"
	}
	return false
}
