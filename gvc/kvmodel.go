package main

// Ghost state of the abstract key-value store (DESIGN §2.3, §4.2): the store is one
// map from byte-string keys to byte-string values; an iterator is a position in the
// byte order of the keys. Contracts of the kvi interfaces (spec/kv.gvc) are written
// over these state variables through the spec functions kvdom(), kvvals(), kvhas(k),
// kvval(k), itvalid(), itpos(); touched(g) is the ghost set of graphs whose timestamp
// was touched.

import (
	"fmt"
	"go/types"
	"strings"
)

var ghostSVs = map[string]string{
	"KV.dom":     "(Array Str Bool)",
	"KV.val":     "(Array Str Str)",
	"KV.itpos":   "Str",
	"KV.itvalid": "Bool",
	"TS.touched": "(Array Str Bool)",
	"KV.writes":  "Int", // number of top-level (individually atomic) writes issued so far
}

// ensureGhost makes sure the ghost variables a frame mentions exist before they are
// havocked (a variable first created after the havoc would alias its old version).
func (x *Exec) ensureGhost(prefixes []string) {
	for name, so := range ghostSVs {
		for _, p := range prefixes {
			if p == "*" || strings.HasPrefix(name, p) {
				x.getSV(name, so)
			}
		}
	}
}

func (env *SpecEnv) kvBuiltin(name string, args []SpecVal) (SpecVal, bool, error) {
	x := env.x
	boolT := types.Typ[types.Bool]
	need := func(n int) error {
		if len(args) != n {
			return fmt.Errorf("%s takes %d argument(s)", name, n)
		}
		return nil
	}
	switch name {
	case "kvdom":
		if err := need(0); err != nil {
			return SpecVal{}, true, err
		}
		return SpecVal{V: tv(x.getSV("KV.dom", ghostSVs["KV.dom"])), So: ghostSVs["KV.dom"]}, true, nil
	case "kvvals":
		if err := need(0); err != nil {
			return SpecVal{}, true, err
		}
		return SpecVal{V: tv(x.getSV("KV.val", ghostSVs["KV.val"])), So: ghostSVs["KV.val"]}, true, nil
	case "kvhas":
		if err := need(1); err != nil {
			return SpecVal{}, true, err
		}
		return SpecVal{V: tv("(select " + x.getSV("KV.dom", ghostSVs["KV.dom"]) + " " + env.term(args[0]) + ")"), Go: boolT}, true, nil
	case "kvval":
		if err := need(1); err != nil {
			return SpecVal{}, true, err
		}
		return SpecVal{V: tv("(select " + x.getSV("KV.val", ghostSVs["KV.val"]) + " " + env.term(args[0]) + ")"), So: "Str"}, true, nil
	case "itvalid":
		if err := need(0); err != nil {
			return SpecVal{}, true, err
		}
		return SpecVal{V: tv(x.getSV("KV.itvalid", "Bool")), Go: boolT}, true, nil
	case "itpos":
		if err := need(0); err != nil {
			return SpecVal{}, true, err
		}
		return SpecVal{V: tv(x.getSV("KV.itpos", "Str")), So: "Str"}, true, nil
	case "touched":
		if err := need(1); err != nil {
			return SpecVal{}, true, err
		}
		return SpecVal{V: tv("(select " + x.getSV("TS.touched", ghostSVs["TS.touched"]) + " " + env.term(args[0]) + ")"), Go: boolT}, true, nil
	case "kvwrites":
		if err := need(0); err != nil {
			return SpecVal{}, true, err
		}
		return SpecVal{V: tv(x.getSV("KV.writes", "Int")), Go: types.Typ[types.Int]}, true, nil
	case "touchedset":
		if err := need(0); err != nil {
			return SpecVal{}, true, err
		}
		return SpecVal{V: tv(x.getSV("TS.touched", ghostSVs["TS.touched"])), So: ghostSVs["TS.touched"]}, true, nil
	}
	return SpecVal{}, false, nil
}
