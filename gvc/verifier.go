package main

import (
	"fmt"
	"go/types"
	"os"
	"path/filepath"
	"sort"
	"strings"
	"sync"

	"golang.org/x/tools/go/packages"
	"golang.org/x/tools/go/ssa"
	"golang.org/x/tools/go/ssa/ssautil"
)

type Verifier struct {
	Repo     string
	VerifDir string
	Module   string
	DB       *ContractDB
	Prog     *ssa.Program
	Pkgs     map[string]*ssa.Package // by import path
	Tier     string
	LevelCap string // evidence level for partial claims ("other"); empty = proof when all discharge
	Timeout  int // seconds per solver per obligation

	mu          sync.Mutex
	assumed     map[string]bool
	specErrors  []string
	curDir      string // directory of the function or lemma being verified (scoped extern contracts)
	inlineCount int
	inlineSeq   int
	pureNames   map[string]bool
	preludes    map[string]string
	Funcs       []*FuncReport
	mutGlobals  map[*ssa.Package][]*ssa.Global
	rpcMethods  []RPCMethod
	rpcErr      error
}

type FuncReport struct {
	Name       string
	Contract   *Contract
	Class      string // P | A
	ClassWhy   []string
	Unmodelled []string
	Obligs     []*Oblig
	Canary     *Oblig
	Missing    bool
	Blocks     int
	Instrs     int
	SMTLines   int
}

func (v *Verifier) noteAssumed(s string) {
	v.mu.Lock()
	defer v.mu.Unlock()
	if v.assumed == nil {
		v.assumed = map[string]bool{}
	}
	v.assumed[s] = true
}

// functions that neither read nor write modelled state; their results are unconstrained.
var defaultPure = []string{
	"fmt.Sprintf", "fmt.Sprint", "fmt.Errorf", "errors.New", "fmt.Println", "fmt.Printf", "fmt.Sprintln",
	"github.com/bmeg/grip/log.", "(*github.com/sirupsen/logrus", "github.com/sirupsen/logrus.",
	"strings.", "strconv.", "bytes.", "math.", "sort.", "time.", "unicode.", "path.", "path/filepath.",
	"(*sync.Mutex)", "(*sync.RWMutex)", "(*sync.WaitGroup)", "(*strings.Builder)", "encoding/json.",
	"google.golang.org/grpc/status.", "google.golang.org/grpc/codes.", "(*google.golang.org/grpc/status.Status)",
	"context.", "(context.Context)", "context.Context.",
	"(*google.golang.org/protobuf/types/known/structpb.", "google.golang.org/protobuf/types/known/structpb.",
	"reflect.", "github.com/spf13/cast.", "google.golang.org/grpc/metadata.", "encoding/base64.", "(*encoding/base64.Encoding)",
	"google.golang.org/protobuf/encoding/protojson.", "google.golang.org/protobuf/proto.", "(*github.com/bmeg/grip/log.",
	"(error).Error", "error.Error", "github.com/mitchellh/hashstructure/v2.", "encoding/binary.", "(encoding/binary.", "os.Getenv",
	"github.com/kennygrant/sanitize.", "github.com/bmeg/grip/util/protoutil.",
	"go.mongodb.org/mongo-driver/bson.", "go.mongodb.org/mongo-driver/bson/primitive.",
	// the SQL database is outside the model: its client library neither reads nor writes modelled state
	// (the Scan family writes through its arguments and is therefore not in this list)
	"(*database/sql.DB).Exec", "(*database/sql.DB).Query", "(*database/sql.DB).Begin", "(*database/sql.DB).Close", "(*database/sql.DB).Prepare",
	"(*database/sql.Tx).Exec", "(*database/sql.Tx).Query", "(*database/sql.Tx).Prepare", "(*database/sql.Tx).Commit", "(*database/sql.Tx).Rollback",
	"(*database/sql.Stmt).Exec", "(*database/sql.Stmt).Close", "(*database/sql.Rows).Next", "(*database/sql.Rows).Err", "(*database/sql.Rows).Close",
	"(*github.com/jmoiron/sqlx.DB).Query", "(*github.com/jmoiron/sqlx.DB).NamedExec", "(*github.com/jmoiron/sqlx.Rows).Next",
	"(*github.com/jmoiron/sqlx.Rows).Err", "(*github.com/jmoiron/sqlx.Rows).Close", "github.com/jmoiron/sqlx.Connect", "github.com/jmoiron/sqlx.Open",
}

func (v *Verifier) isPureName(name string) bool {
	for _, p := range defaultPure {
		if strings.HasPrefix(name, p) {
			return true
		}
	}
	return false
}

func (v *Verifier) load(patterns []string) error {
	cfg := &packages.Config{Mode: packages.LoadSyntax, Dir: v.Repo, BuildFlags: []string{"-tags=verif"},
		Env: append(os.Environ(), "GOFLAGS=-mod=mod", "GOPROXY=off", "GOSUMDB=off", "GOTOOLCHAIN=local")}
	pkgs, err := packages.Load(cfg, patterns...)
	if err != nil {
		return err
	}
	var errs []string
	for _, p := range pkgs {
		for _, e := range p.Errors {
			errs = append(errs, e.Error())
		}
	}
	if len(errs) > 0 {
		return fmt.Errorf("package errors: %s", strings.Join(errs, "; "))
	}
	prog, spkgs := ssautil.Packages(pkgs, ssa.GlobalDebug)
	v.Prog = prog
	v.Pkgs = map[string]*ssa.Package{}
	for _, p := range spkgs {
		if p != nil {
			p.Build()
			v.Pkgs[p.Pkg.Path()] = p
		}
	}
	return nil
}

// findFunc resolves a contract target inside its package.
func (v *Verifier) findFunc(c *Contract) *ssa.Function {
	path := v.Module
	if c.Dir != "." && c.Dir != "" {
		path += "/" + c.Dir
	}
	pkg := v.Pkgs[path]
	if pkg == nil {
		return nil
	}
	name := c.Name
	// closure suffixes: F$1$2
	parts := strings.Split(name, "$")
	base := parts[0]
	var fn *ssa.Function
	if strings.HasPrefix(base, "(") {
		// method: (*T).M or (T).M
		i := strings.Index(base, ").")
		recv := base[1:i]
		mname := base[i+2:]
		ptr := strings.HasPrefix(recv, "*")
		tname := strings.TrimPrefix(recv, "*")
		obj := pkg.Pkg.Scope().Lookup(tname)
		if obj == nil {
			return nil
		}
		var t types.Type = obj.Type()
		if ptr {
			t = types.NewPointer(t)
		}
		sel := v.Prog.MethodSets.MethodSet(t).Lookup(pkg.Pkg, mname)
		if sel == nil {
			return nil
		}
		fn = v.Prog.MethodValue(sel)
	} else {
		fn = pkg.Func(base)
	}
	if fn == nil {
		return nil
	}
	for _, p := range parts[1:] {
		var n int
		fmt.Sscanf(p, "%d", &n)
		if n < 1 || n > len(fn.AnonFuncs) {
			return nil
		}
		fn = fn.AnonFuncs[n-1]
	}
	return fn
}

func (v *Verifier) prelude(name string) (string, error) {
	if v.preludes == nil {
		v.preludes = map[string]string{}
	}
	if t, ok := v.preludes[name]; ok {
		return t, nil
	}
	b, err := os.ReadFile(filepath.Join(v.VerifDir, "spec", name+".smt2"))
	if err != nil {
		return "", err
	}
	v.preludes[name] = string(b)
	return string(b), nil
}

func (v *Verifier) newExec(fn *ssa.Function, c *Contract) (*Exec, error) {
	x := &Exec{V: v, fn: fn, c: c, smt: newSMT(), vals: map[ssa.Value]Val{}, st: State{}, init: State{}, svSort: map[string]string{},
		edges: map[*ssa.BasicBlock][]edge{}, done: map[*ssa.BasicBlock]bool{}, safeN: map[string]int{}, written: map[string]bool{},
		callN: map[string]int{}, fvKnown: map[string]int{}, iterSV: map[*ssa.Range]string{}, entryReach: "true"}
	if c != nil {
		if err := x.usePreludes(c); err != nil {
			return nil, err
		}
	}
	return x, nil
}

// usePreludes loads the spec preludes a contract names (once each). A callee's
// contract may name preludes its caller did not load; they are added when the
// contract is applied (preludes are emitted before the statement stream).
func (x *Exec) usePreludes(c *Contract) error {
	p := c.Options["prelude"]
	if p == "" {
		return nil
	}
	r := x.root()
	for _, n := range strings.Split(p, ",") {
		t, err := x.V.prelude(strings.TrimSpace(n))
		if err != nil {
			return err
		}
		dup := false
		for _, have := range r.smt.preludes {
			if have == t {
				dup = true
			}
		}
		if !dup {
			r.smt.preludes = append(r.smt.preludes, t)
			r.smt.funcSorts = nil
		}
	}
	return nil
}

func (v *Verifier) verifyFunc(c *Contract) *FuncReport {
	v.curDir = c.Dir
	rep := &FuncReport{Name: c.Dir + "::" + c.Name, Contract: c}
	fn := v.findFunc(c)
	if fn == nil || fn.Blocks == nil {
		rep.Missing = true
		o := &Oblig{Name: rep.Name + "#target", Func: rep.Name, Kind: "target", Status: "failed", Props: c.Props,
			Output: "the function under contract no longer exists (renamed, removed or its closures renumbered); its obligations cannot be generated", Src: c.Name}
		rep.Obligs = append(rep.Obligs, o)
		return rep
	}
	x, err := v.newExec(fn, c)
	if err != nil {
		rep.Missing = true
		rep.Obligs = append(rep.Obligs, &Oblig{Name: rep.Name + "#prelude", Func: rep.Name, Kind: "target", Status: "failed", Props: c.Props, Output: err.Error()})
		return rep
	}
	rep.Blocks = len(fn.Blocks)
	for _, b := range fn.Blocks {
		rep.Instrs += len(b.Instrs)
	}
	if rm := renameMap(c.Vars, varNames(fn)); rm != nil {
		x.rename = rm
		var pairs []string
		for o, n := range rm {
			pairs = append(pairs, o+"->"+n)
		}
		sort.Strings(pairs)
		v.noteAssumed("renamed variables of " + rep.Name + " identified by declaration position: " + strings.Join(pairs, ", "))
	}
	x.getSV("alloc", "Int")
	// parameters
	for _, p := range fn.Params {
		so := x.smt.sortOf(p.Type())
		n := smtName("p." + p.Name())
		x.smt.emit(fmt.Sprintf("(declare-const %s %s)", n, so))
		x.vals[p] = tv(n)
		x.paramFacts(n, p.Type())
	}
	for _, fv := range fn.FreeVars {
		el := fv.Type().(*types.Pointer).Elem()
		so := x.smt.sortOf(el)
		l := &Loc{Kind: LCell, SV: "fv." + fv.Name(), Sort: so, Elem: el}
		x.vals[fv] = Val{Loc: l, KnownLen: -1}
		t := x.getSV(l.SV, so)
		x.paramFacts(t, el)
	}
	x.analyseLoops()
	if g := c.Options["globals"]; g != "" {
		x.runPackageInits(g)
	}
	// preconditions
	env := x.specEnvAt(nil, nil)
	for _, r := range c.Requires {
		t, err := x.evalSpec(r.E, env)
		if err != nil {
			x.specError(r, err)
			continue
		}
		x.smt.assume(t)
	}
	for _, a := range c.Axioms {
		t, err := x.evalSpec(a.E, env)
		if err != nil {
			x.specError(a, err)
			continue
		}
		x.smt.assume(t)
		v.noteAssumed("definitional axiom " + c.Name + ":" + a.Name + " — " + a.Src)
	}
	x.runBlocks(rpo(fn, nil, fn.Blocks[0]), nil)
	// postconditions: one named obligation per clause, discharged as one sliced
	// sub-goal per return point
	x.smt.curOwner = -1
	x.cur = nil
	for _, e := range c.Ensures {
		var parts []obPart
		bad := false
		for k := range x.rets {
			rp := &x.rets[k]
			// definitions emitted while evaluating the clause for this return point
			// belong to its block (they may mention values defined only on its path)
			if rp.blk != nil {
				x.smt.curOwner = rp.blk.Index
			}
			x.reach = rp.reach
			t, err := x.evalSpec(e.E, x.specEnvAt(rp.blk, rp))
			x.smt.curOwner = -1
			if err != nil {
				x.specError(e, err)
				bad = true
				break
			}
			var anc map[int]bool
			if rp.blk != nil {
				anc = ancestors(rp.blk)
			}
			parts = append(parts, obPart{Goal: implies(rp.reach, t), Anc: anc})
		}
		if bad {
			o := x.obligeNoAssume("ensures", "ensures:"+e.Name, "false", e.Src, fn)
			o.Status = "failed"
			o.Output = "contract clause could not be evaluated against the current code: " + v.specErrors[len(v.specErrors)-1]
			continue
		}
		o := x.obligeNoAssume("ensures", "ensures:"+e.Name, "true", e.Src, fn)
		o.Parts = parts
	}
	// vacuity canary: some return point must be reachable under the preconditions
	// frame: a function declared pure (or with a modifies list) changes nothing the
	// caller can see outside that list: heap arrays agree with their entry version
	// at every reference that existed at entry.
	if c.Pure || len(c.Modifies) > 0 {
		touched := map[string]bool{}
		for _, rp := range x.rets {
			for k, t := range rp.st {
				if x.init[k] != t {
					touched[k] = true
				}
			}
		}
		var names []string
		for k := range touched {
			names = append(names, k)
		}
		sort.Strings(names)
		a0 := x.init["alloc"]
		for _, k := range names {
			if k == "alloc" || strings.HasPrefix(k, "cell.") || strings.HasPrefix(k, "fv.") {
				continue
			}
			allowed := false
			for _, m := range c.Modifies {
				if strings.HasPrefix(k, m) {
					allowed = true
				}
			}
			if allowed {
				continue
			}
			var parts []obPart
			for _, rp := range x.rets {
				fin, ok := rp.st[k]
				if !ok || fin == x.init[k] {
					continue
				}
				var g Term
				if strings.HasPrefix(k, "G.") {
					g = eq(fin, x.init[k])
				} else {
					g = fmt.Sprintf("(forall ((r Int)) (=> (and (<= 0 r) (< r %s)) (= (select %s r) (select %s r))))", a0, fin, x.init[k])
				}
				var anc map[int]bool
				if rp.blk != nil {
					anc = ancestors(rp.blk)
				}
				parts = append(parts, obPart{Goal: implies(rp.reach, g), Anc: anc})
			}
			if len(parts) > 0 {
				o := x.obligeNoAssume("frame", "frame:"+k, "true", "unchanged at pre-existing references: "+k, fn)
				o.Parts = parts
			}
		}
	}
	for _, cs := range c.CallSites {
		// a call-site clause that no call matches would pass vacuously
		hit := false
		for _, o := range x.obligs {
			if strings.Contains(o.Name, "#callsite:"+cs.Name+":") {
				hit = true
			}
		}
		if !hit {
			x.specError(cs, fmt.Errorf("no call of %q is reached in this function", cs.Callee))
		}
	}
	if len(x.rets) > 0 {
		can := &Oblig{Name: x.V.funcKey(fn) + "#canary", Func: x.V.funcKey(fn), Kind: "canary", NLines: len(x.smt.lines), ex: x, Canary: true, Props: c.Props}
		for _, rp := range x.rets {
			var anc map[int]bool
			if rp.blk != nil {
				anc = ancestors(rp.blk)
			}
			can.Parts = append(can.Parts, obPart{Goal: not(rp.reach), Anc: anc})
		}
		rep.Canary = can
	}
	rep.Obligs = x.obligs
	rep.Class = "P"
	if len(x.classA) > 0 {
		rep.Class = "A"
		rep.ClassWhy = x.classA
	}
	rep.Unmodelled = x.unmodelled
	rep.SMTLines = len(x.smt.lines)
	return rep
}

func (x *Exec) obligeNoAssume(kind, name string, goal Term, src string, fn *ssa.Function) *Oblig {
	full := x.V.funcKey(x.fn) + "#" + name
	o := &Oblig{Name: full, Func: x.V.funcKey(x.fn), Kind: kind, Goal: goal, NLines: len(x.smt.lines), Src: src, Pos: x.pos(fn.Pos()), ex: x}
	if x.c != nil {
		o.Props = x.c.Props
	}
	x.obligs = append(x.obligs, o)
	return o
}

func (x *Exec) paramFacts(t Term, ty types.Type) {
	a0 := x.init["alloc"]
	switch u := ty.Underlying().(type) {
	case *types.Pointer:
		if x.smt.sortOf(ty) == "Slice" {
			x.smt.assume("(and (>= (sref " + t + ") 0) (< (sref " + t + ") " + a0 + "))")
		} else {
			x.smt.assume("(and (>= " + t + " 0) (< " + t + " " + a0 + "))")
		}
	case *types.Chan:
		x.smt.assume("(and (>= " + t + " 0) (< " + t + " " + a0 + "))")
		// the total history a channel will ever carry has a non-negative length
		x.smt.assume("(>= (select " + x.getSV("ChLen", arrII) + " " + t + ") 0)")
	case *types.Map:
		x.smt.assume("(and (>= " + t + " 0) (< " + t + " " + a0 + "))")
	case *types.Slice:
		if !isByteSlice(ty) {
			x.smt.assume("(and (>= (sref " + t + ") 0) (< (sref " + t + ") " + a0 + ") (>= (slen " + t + ") 0) (>= (soff " + t + ") 0) (=> (= (sref " + t + ") 0) (= (slen " + t + ") 0)))")
		}
	case *types.Basic:
		if lo, hi, ok := intRange(ty); ok && u.Info()&types.IsInteger != 0 {
			x.smt.assume("(and (<= " + lo + " " + t + ") (<= " + t + " " + hi + "))")
		}
	}
}

// verifyLemma: a spec-level statement over contracts / prelude functions, no code.
func (v *Verifier) verifyLemma(c *Contract) *FuncReport {
	v.curDir = c.Options["pkg"]
	rep := &FuncReport{Name: "lemma:" + c.Name, Contract: c, Class: "P"}
	fail := func(msg string) *FuncReport {
		rep.Obligs = append(rep.Obligs, &Oblig{Name: rep.Name, Func: rep.Name, Kind: "lemma", Status: "failed", Output: msg, Props: c.Props})
		return rep
	}
	x, err := v.newExec(nil, c)
	if err != nil {
		return fail(err.Error())
	}
	x.lemmaName = rep.Name
	env := &SpecEnv{vars: map[string]SpecVal{}, x: x, st: x.st, old: x.init, lets: c.Lets, lemma: true}
	if p := c.Options["pkg"]; p != "" {
		path := v.Module + "/" + p
		sp := v.Pkgs[path]
		if sp == nil {
			return fail("package " + path + " is not loaded")
		}
		env.pkg = sp.Pkg
		env.spkg = sp
	}
	if c.Lemma != nil { // one-line form
		t, err := x.evalSpecLemma(c.Lemma.E, env)
		if err != nil {
			return fail(err.Error())
		}
		rep.Obligs = append(rep.Obligs, &Oblig{Name: rep.Name, Func: rep.Name, Kind: "lemma", Goal: t, NLines: len(x.smt.lines), Src: c.Lemma.Src, ex: x, Props: c.Props})
		return rep
	}
	// block form: params are free constants (the lemma is universally quantified over them)
	x.getSV("alloc", "Int")
	if g := c.Options["globals"]; g != "" {
		x.runPackageInits(g)
	}
	for _, p := range c.Params {
		name, so := p, "Int"
		if i := strings.Index(p, ":"); i >= 0 {
			name, so = p[:i], p[i+1:]
		}
		var gt types.Type
		switch so {
		case "string":
			so, gt = "Str", types.Typ[types.String]
		case "bytes":
			so, gt = "Str", types.NewSlice(types.Typ[types.Byte])
		case "int":
			so, gt = "Int", types.Typ[types.Int]
		case "byte":
			so, gt = "Int", types.Typ[types.Byte]
		case "float64":
			so, gt = "F64", types.Typ[types.Float64]
		case "bool":
			so, gt = "Bool", types.Typ[types.Bool]
		}
		n := smtName("p." + name)
		x.smt.emit(fmt.Sprintf("(declare-const %s %s)", n, so))
		if gt != nil {
			x.paramFacts(n, gt)
		}
		env.vars[name] = SpecVal{V: tv(n), Go: gt}
	}
	for _, r := range c.Requires {
		t, err := x.evalSpecLemma(r.E, env)
		if err != nil {
			return fail(r.Name + ": " + err.Error())
		}
		x.smt.assume(t)
	}
	for _, e := range c.Ensures {
		t, err := x.evalSpecLemma(e.E, env)
		if err != nil {
			rep.Obligs = append(rep.Obligs, &Oblig{Name: rep.Name + "#" + e.Name, Func: rep.Name, Kind: "lemma", Status: "failed", Output: "clause could not be evaluated against the current code: " + err.Error(), Src: e.Src, Props: c.Props})
			continue
		}
		rep.Obligs = append(rep.Obligs, &Oblig{Name: rep.Name + "#" + e.Name, Func: rep.Name, Kind: "lemma", Goal: t, NLines: len(x.smt.lines), Src: e.Src, ex: x, Props: c.Props})
	}
	if len(x.classA) > 0 {
		rep.Class = "A"
		rep.ClassWhy = x.classA
	}
	rep.Unmodelled = x.unmodelled
	rep.SMTLines = len(x.smt.lines)
	// vacuity: the hypotheses must be satisfiable
	rep.Canary = &Oblig{Name: rep.Name + "#canary", Func: rep.Name, Kind: "canary", Goal: "false", NLines: len(x.smt.lines), ex: x, Canary: true, Props: c.Props}
	return rep
}

func (x *Exec) evalSpecLemma(e *SExpr, env *SpecEnv) (Term, error) {
	env.x = x
	v, err := env.ev(e)
	if err != nil {
		return "", err
	}
	return env.term(v), nil
}

// selectContracts returns the contracts tagged with the property, and the package
// patterns that must be loaded for them.
func (v *Verifier) selectContracts(prop string) ([]*Contract, []string) {
	var cs []*Contract
	dirs := map[string]bool{}
	for _, c := range v.DB.All {
		if !c.HasProp(prop) {
			continue
		}
		cs = append(cs, c)
		if c.Kind == "func" {
			dirs[c.Dir] = true
		}
		if p := c.Options["pkg"]; p != "" {
			dirs[p] = true
		}
		if l := c.Options["load"]; l != "" {
			for _, d := range strings.Split(l, ",") {
				dirs[strings.TrimSpace(d)] = true
			}
		}
	}
	var pats []string
	for d := range dirs {
		pats = append(pats, "./"+d)
	}
	sort.Strings(pats)
	return cs, pats
}
