package main

import (
	"fmt"
	"go/token"
	"go/types"
	"os"
	"sort"
	"strings"

	"golang.org/x/tools/go/ssa"
)

// Renamed variables. A contract names parameters, captured variables and loop-carried
// locals of the function it is attached to. So that renaming one of them is not mistaken
// for a change of behaviour, every func contract records, in a `vars` line written by
// `gvc annotate`, the names of all source variables of the function in declaration order
// (receiver and parameters, captured variables, named locals, then the same for its
// closures). When the function now declares the same number of variables and the lists
// differ only in names, a name the contract uses is read as the variable that stands at
// the same position today. The identification is positional, never by guess: if a
// variable was added or removed the lists differ in length and no renaming is applied.

// varNames lists the source variables of fn (and, recursively, of its closures) in
// declaration order.
func varNames(fn *ssa.Function) []string {
	var out []string
	for _, p := range fn.Params {
		out = append(out, p.Name())
	}
	for _, fv := range fn.FreeVars {
		out = append(out, fv.Name())
	}
	out = append(out, localNames(fn)...)
	for _, af := range fn.AnonFuncs {
		out = append(out, closureNames(af)...)
	}
	return out
}

func closureNames(fn *ssa.Function) []string {
	var out []string
	for _, p := range fn.Params {
		out = append(out, p.Name())
	}
	out = append(out, localNames(fn)...)
	for _, af := range fn.AnonFuncs {
		out = append(out, closureNames(af)...)
	}
	return out
}

func localNames(fn *ssa.Function) []string {
	type lv struct {
		name string
		pos  token.Pos
	}
	seen := map[types.Object]bool{}
	isParam := map[string]bool{}
	for _, p := range fn.Params {
		isParam[p.Name()] = true
	}
	var ls []lv
	for _, b := range fn.Blocks {
		for _, ins := range b.Instrs {
			d, ok := ins.(*ssa.DebugRef)
			if !ok {
				continue
			}
			obj := d.Object()
			v, ok := obj.(*types.Var)
			if !ok || v.IsField() || seen[obj] || v.Name() == "_" {
				continue
			}
			// a variable declared in this function (not a package-level one, not a
			// parameter, not one captured from the enclosing function)
			if v.Parent() == nil || v.Parent() == v.Pkg().Scope() {
				continue
			}
			if fn.Syntax() != nil && (v.Pos() < fn.Syntax().Pos() || v.Pos() > fn.Syntax().End()) {
				continue
			}
			if isParam[v.Name()] && declaredAsParam(fn, v) {
				continue
			}
			seen[obj] = true
			ls = append(ls, lv{v.Name(), v.Pos()})
		}
	}
	sort.Slice(ls, func(i, j int) bool { return ls[i].pos < ls[j].pos })
	var out []string
	for _, l := range ls {
		out = append(out, l.name)
	}
	return out
}

func declaredAsParam(fn *ssa.Function, v *types.Var) bool {
	for _, p := range fn.Params {
		if p.Object() == v {
			return true
		}
	}
	return false
}

// renameMap compares the recorded and the current variable lists.
func renameMap(recorded, current []string) map[string]string {
	if len(recorded) == 0 || len(recorded) != len(current) {
		return nil
	}
	m := map[string]string{}
	for i := range recorded {
		if recorded[i] != current[i] {
			if prev, ok := m[recorded[i]]; ok && prev != current[i] {
				return nil // one recorded name stands for two different variables now: do not guess
			}
			m[recorded[i]] = current[i]
		}
	}
	// a recorded name that is kept at one position and renamed at another is ambiguous
	for i := range recorded {
		if recorded[i] == current[i] {
			if _, ok := m[recorded[i]]; ok {
				return nil
			}
		}
	}
	if len(m) == 0 {
		return nil
	}
	return m
}

// runAnnotate rewrites the `vars` line of every func contract in the repository's
// contract files from the current source.
func runAnnotate(repo, verif string) int {
	v, err := newVerifier(repo, verif, "quick")
	if err != nil {
		fmt.Fprintln(os.Stderr, err)
		return 2
	}
	patSet := map[string]bool{}
	for _, c := range v.DB.All {
		if c.Kind == "func" {
			patSet["./"+c.Dir] = true
		}
	}
	var pats []string
	for p := range patSet {
		pats = append(pats, p)
	}
	sort.Strings(pats)
	if err := v.load(pats); err != nil {
		fmt.Fprintln(os.Stderr, err)
		return 2
	}
	byFile := map[string]map[int]string{} // file -> line of the `//@ func` header -> vars line
	n := 0
	for _, c := range v.DB.All {
		if c.Kind != "func" || !strings.HasPrefix(c.File, repo) {
			continue
		}
		fn := v.findFunc(c)
		if fn == nil {
			fmt.Fprintf(os.Stderr, "annotate: %s::%s: function not found\n", c.Dir, c.Name)
			continue
		}
		if byFile[c.File] == nil {
			byFile[c.File] = map[int]string{}
		}
		byFile[c.File][c.Line] = "//@   vars " + strings.Join(varNames(fn), " ")
		n++
	}
	for file, at := range byFile {
		b, err := os.ReadFile(file)
		if err != nil {
			fmt.Fprintln(os.Stderr, err)
			return 2
		}
		lines := strings.Split(string(b), "\n")
		var out []string
		for i := 0; i < len(lines); i++ {
			out = append(out, lines[i])
			if vl, ok := at[i+1]; ok {
				if i+1 < len(lines) && strings.HasPrefix(strings.TrimSpace(lines[i+1]), "//@   vars ") || (i+1 < len(lines) && strings.TrimSpace(lines[i+1]) == "//@   vars") {
					i++ // replace the old line
				}
				if strings.TrimSpace(vl) != "//@   vars" {
					out = append(out, vl)
				}
			}
		}
		if err := os.WriteFile(file, []byte(strings.Join(out, "\n")), 0o644); err != nil {
			fmt.Fprintln(os.Stderr, err)
			return 2
		}
	}
	fmt.Printf("annotate: %d func contracts in %d files\n", n, len(byFile))
	return 0
}
