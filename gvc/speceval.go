package main

// Evaluation of contract expressions to SMT terms, in the context of a function
// under contract (its parameters, free variables, loop-carried variables, state).

import (
	"fmt"
	"sort"
	"go/constant"
	"go/token"
	"go/types"
	"strings"

	"golang.org/x/tools/go/ssa"
)

type SpecVal struct {
	V     Val
	Go    types.Type // Go type of the value, when known
	Cell  *Loc       // a variable held in a location: read at evaluation time
	IsNil bool
	Pkg   *types.Package // identifier names a package
	Tuple *types.Tuple   // result types of a Go call with several results
	So    string         // SMT sort when known and there is no Go type (prelude functions)
}

type SpecEnv struct {
	boundGo  map[string]types.Type
	vars     map[string]SpecVal
	st, old  State
	results  Val
	resTypes *types.Tuple
	lets     []NamedExpr
	bound    map[string]string
	x        *Exec
	pkg      *types.Package
	spkg     *ssa.Package // code lemmas: package whose real functions may be called
	lemma    bool
	letDepth int
	blk      *ssa.BasicBlock // block at which the clause is evaluated (loop header for invariants)
	callee   bool            // a callee's contract applied at a call site: its names are the callee's, never renamed
}

func (x *Exec) evalSpec(e *SExpr, env *SpecEnv) (Term, error) {
	env.x = x
	if x.fn == nil {
		// a lemma: no enclosing function
	} else if env.pkg == nil && x.fn.Pkg != nil {
		env.pkg = x.fn.Pkg.Pkg
	} else if env.pkg == nil && x.fn.Parent() != nil && x.fn.Parent().Pkg != nil {
		env.pkg = x.fn.Parent().Pkg.Pkg
	}
	saved := x.st
	defer func() { x.st = saved }()
	if env.st != nil {
		// evaluate on a copy: calls of real functions inside a clause allocate, and
		// that must not leak into the program state
		x.st = env.st.clone()
	}
	v, err := env.ev(e)
	if err != nil {
		return "", err
	}
	return env.term(v), nil
}

func (env *SpecEnv) term(v SpecVal) Term {
	if v.Cell != nil {
		return env.x.readLoc(v.Cell)
	}
	if v.IsNil {
		return "0"
	}
	return env.x.termOf(v.V)
}

func (env *SpecEnv) sortOfVal(v SpecVal) string {
	if v.Go != nil {
		return env.x.smt.sortOf(v.Go)
	}
	return v.So
}

func sv(t Term) SpecVal { return SpecVal{V: tv(t)} }

func (env *SpecEnv) ev(e *SExpr) (SpecVal, error) {
	x := env.x
	switch e.Kind {
	case SInt:
		return SpecVal{V: tv(e.Name), Go: types.Typ[types.Int]}, nil
	case SStr:
		return SpecVal{V: tv(x.smt.strLit(e.Name)), Go: types.Typ[types.String]}, nil
	case SIdent:
		return env.ident(e.Name)
	case SSel:
		return env.sel(e)
	case SIndex:
		a, err := env.ev(e.Args[0])
		if err != nil {
			return SpecVal{}, err
		}
		i, err := env.ev(e.Args[1])
		if err != nil {
			return SpecVal{}, err
		}
		at, it := env.term(a), env.term(i)
		if a.Go != nil {
			switch u := a.Go.Underlying().(type) {
			case *types.Slice:
				if isByteSlice(a.Go) {
					return SpecVal{V: tv("(bget " + at + " " + it + ")"), Go: types.Typ[types.Int]}, nil
				}
				svn, svs, _ := x.sliceHeap(u.Elem())
				return SpecVal{V: tv("(select (select " + x.getSV(svn, svs) + " (sref " + at + ")) (ix (soff " + at + ") " + it + "))"), Go: u.Elem()}, nil
			case *types.Chan:
				atn, ats := x.chanAt(u.Elem())
				return SpecVal{V: tv("(select (select " + x.getSV(atn, ats) + " " + at + ") " + it + ")"), Go: u.Elem()}, nil
			case *types.Map:
				_, _, vsv, vso := x.mapSV(u)
				return SpecVal{V: tv("(select (select " + x.getSV(vsv, vso) + " " + at + ") " + it + ")"), Go: u.Elem()}, nil
			case *types.Basic:
				return SpecVal{V: tv("(bget " + at + " " + it + ")"), Go: types.Typ[types.Int]}, nil
			}
		}
		return sv("(select " + at + " " + it + ")"), nil
	case SUn:
		a, err := env.ev(e.Args[0])
		if err != nil {
			return SpecVal{}, err
		}
		if e.Name == "!" {
			return SpecVal{V: tv(not(env.term(a))), Go: types.Typ[types.Bool]}, nil
		}
		if env.sortOfVal(a) == "F64" {
			return SpecVal{V: tv("(fp.neg " + env.term(a) + ")"), Go: a.Go}, nil
		}
		return SpecVal{V: tv("(- " + env.term(a) + ")"), Go: a.Go}, nil
	case SBin:
		return env.bin(e)
	case SQuant:
		saved := env.bound
		env.bound = map[string]string{}
		for k, v := range saved {
			env.bound[k] = v
		}
		var decls []string
		for _, v := range e.Vars {
			name, so := v, "Int"
			if i := strings.Index(v, ":"); i >= 0 {
				name, so = v[:i], v[i+1:]
			}
			if strings.HasPrefix(so, "*") || strings.Contains(so, ".") {
				gt, err := env.resolveType(so)
				if err != nil {
					env.bound = saved
					return SpecVal{}, err
				}
				if env.boundGo == nil {
					env.boundGo = map[string]types.Type{}
				}
				env.boundGo[name] = gt
				so = x.smt.sortOf(gt)
			} else if env.boundGo != nil {
				delete(env.boundGo, name)
			}
			env.bound[name] = so
			decls = append(decls, "("+name+" "+so+")")
		}
		body, err := env.ev(e.Args[0])
		env.bound = saved
		if err != nil {
			return SpecVal{}, err
		}
		return SpecVal{V: tv("(" + e.Name + " (" + strings.Join(decls, " ") + ") " + env.term(body) + ")"), Go: types.Typ[types.Bool]}, nil
	case SCall:
		return env.call(e)
	}
	return SpecVal{}, fmt.Errorf("cannot evaluate %s", e)
}

func (env *SpecEnv) ident(name string) (SpecVal, error) {
	x := env.x
	if so, ok := env.bound[name]; ok {
		var g types.Type
		if so == "Int" {
			g = types.Typ[types.Int]
		}
		if gt, ok := env.boundGo[name]; ok {
			g = gt
		}
		return SpecVal{V: tv(name), Go: g, So: so}, nil
	}
	// a variable the code has renamed since the contract was annotated (varnames.go)
	if rm := x.root().rename; rm != nil && !env.callee && !env.lemma {
		if nn, ok := rm[name]; ok {
			name = nn
		}
	}
	switch name {
	case "true", "false":
		return SpecVal{V: tv(name), Go: types.Typ[types.Bool]}, nil
	case "nil":
		return SpecVal{IsNil: true}, nil
	case "alloc":
		// the allocation frontier: every reference handed out so far is below it
		return SpecVal{V: tv(x.getSV("alloc", "Int")), Go: types.Typ[types.Int]}, nil
	case "result":
		if env.resTypes == nil {
			return SpecVal{}, fmt.Errorf("result used outside a postcondition")
		}
		if env.resTypes.Len() == 1 {
			return SpecVal{V: env.results, Go: env.resTypes.At(0).Type()}, nil
		}
		return SpecVal{V: env.results}, nil
	}
	for _, l := range env.lets {
		if l.Name == name {
			if env.letDepth > 8 {
				return SpecVal{}, fmt.Errorf("let %s: recursion", name)
			}
			// lets name entry values: evaluated in the pre-state
			saved := x.st
			if env.old != nil {
				o := env.old.clone()
				// entry heap and ghost state, but the function's own local cells keep
				// their current values (a captured parameter lives in such a cell)
				for k, v := range saved {
					if strings.HasPrefix(k, "cell.") {
						o[k] = v
					}
				}
				x.st = o
			}
			env.letDepth++
			v, err := env.ev(l.E)
			var r SpecVal
			if err == nil {
				r = SpecVal{V: tv(env.term(v)), Go: v.Go}
			}
			env.letDepth--
			x.st = saved
			return r, err
		}
	}
	if env.letDepth > 0 && x.fn != nil {
		// lets name entry values: a parameter that the code reassigns is, inside a let,
		// the value the function was called with
		for _, p := range x.fn.Params {
			if p.Name() == name {
				if pv, ok := x.vals[p]; ok {
					return SpecVal{V: pv, Go: p.Type()}, nil
				}
			}
		}
	}
	if v, ok := env.vars[name]; ok {
		return v, nil
	}
	// inside an inlined closure of the function under contract: a variable of the
	// enclosing function that the closure itself does not capture
	if !env.callee && !env.lemma {
		for p := x.parent; p != nil; p = p.parent {
			if p.fn == nil || p.cur == nil {
				continue
			}
			if v, ok := p.specEnvAt(p.cur, nil).vars[name]; ok {
				return v, nil
			}
		}
	}
	if env.pkg != nil {
		if obj := env.pkg.Scope().Lookup(name); obj != nil {
			if c, ok := obj.(*types.Const); ok {
				return env.constVal(c), nil
			}
			// a package-level variable
			if _, ok := obj.(*types.Var); ok {
				if sp := x.V.Pkgs[env.pkg.Path()]; sp != nil {
					if g, ok := sp.Members[name].(*ssa.Global); ok {
						gv := x.val(g)
						if gv.Loc != nil {
							return SpecVal{Cell: gv.Loc, Go: g.Type().(*types.Pointer).Elem()}, nil
						}
					}
				}
			}
		}
		for _, imp := range env.pkg.Imports() {
			if imp.Name() == name {
				return SpecVal{Pkg: imp}, nil
			}
		}
	}
	// an SMT symbol from the prelude
	if so := x.smt.declaredSort(name); so != "" {
		r := sv(name)
		r.So = so
		return r, nil
	}
	switch name {
	case "ANil", "snil", "RNE":
		return sv(name), nil
	}
	return SpecVal{}, fmt.Errorf("unknown identifier %q (not a parameter, local variable, constant or spec symbol)", name)
}

// resolveType resolves "*pkg.Type", "pkg.Type" or "*Type" against the package of the
// function under contract and its imports.
func (env *SpecEnv) resolveType(s string) (types.Type, error) {
	if strings.Contains(s, "[") {
		// an instantiated generic type: look it up among the types of the values of the
		// function under contract, written relative to its package (other packages by name)
		if env.x != nil && env.x.root().fn != nil {
			fn := env.x.root().fn
			qual := func(p *types.Package) string {
				if env.pkg != nil && p == env.pkg {
					return ""
				}
				return p.Name()
			}
			for _, b := range fn.Blocks {
				for _, ins := range b.Instrs {
					if v, ok := ins.(ssa.Value); ok && v.Type() != nil {
						if types.TypeString(v.Type(), qual) == s {
							return v.Type(), nil
						}
					}
				}
			}
		}
		return nil, fmt.Errorf("type %s does not occur in the function under contract", s)
	}
	ptr := strings.HasPrefix(s, "*")
	n := strings.TrimPrefix(s, "*")
	pkg := env.pkg
	if i := strings.Index(n, "."); i >= 0 {
		pn := n[:i]
		n = n[i+1:]
		var found *types.Package
		if env.pkg != nil {
			if env.pkg.Name() == pn {
				found = env.pkg
			}
			for _, imp := range env.pkg.Imports() {
				if imp.Name() == pn {
					found = imp
				}
			}
		}
		if found == nil {
			return nil, fmt.Errorf("unknown package %s in type %s", pn, s)
		}
		pkg = found
	}
	if pkg == nil {
		return nil, fmt.Errorf("cannot resolve type %s", s)
	}
	obj := pkg.Scope().Lookup(n)
	if obj == nil {
		return nil, fmt.Errorf("unknown type %s", s)
	}
	var t types.Type = obj.Type()
	if ptr {
		t = types.NewPointer(t)
	}
	return t, nil
}

func (env *SpecEnv) constVal(c *types.Const) SpecVal {
	x := env.x
	switch x.smt.sortOf(c.Type()) {
	case "Int":
		if v, ok := constant.Int64Val(constant.ToInt(c.Val())); ok {
			return SpecVal{V: tv(intLit(v)), Go: c.Type()}
		}
	case "Str":
		return SpecVal{V: tv(x.smt.strLit(constant.StringVal(c.Val()))), Go: c.Type()}
	case "Bool":
		if constant.BoolVal(c.Val()) {
			return SpecVal{V: tv("true"), Go: c.Type()}
		}
		return SpecVal{V: tv("false"), Go: c.Type()}
	case "F64":
		f, _ := constant.Float64Val(c.Val())
		return SpecVal{V: tv(floatLit(f)), Go: c.Type()}
	}
	return SpecVal{V: tv(c.Val().ExactString()), Go: c.Type()}
}

func (env *SpecEnv) sel(e *SExpr) (SpecVal, error) {
	x := env.x
	a, err := env.ev(e.Args[0])
	if err != nil {
		return SpecVal{}, err
	}
	if a.Pkg != nil {
		obj := a.Pkg.Scope().Lookup(e.Name)
		if c, ok := obj.(*types.Const); ok {
			return env.constVal(c), nil
		}
		// a package-level variable of an imported package (e.g. a library's default options)
		if _, ok := obj.(*types.Var); ok && x.fn != nil && x.fn.Prog != nil {
			if sp := x.fn.Prog.Package(a.Pkg); sp != nil {
				if g, ok := sp.Members[e.Name].(*ssa.Global); ok {
					gv := x.val(g)
					if gv.Loc != nil {
						return SpecVal{Cell: gv.Loc, Go: g.Type().(*types.Pointer).Elem()}, nil
					}
					// a struct-valued variable is modelled as a fixed reference to its fields
					if _, isStruct := g.Type().(*types.Pointer).Elem().Underlying().(*types.Struct); isStruct {
						return SpecVal{V: gv, Go: g.Type()}, nil
					}
				}
			}
		}
		return SpecVal{}, fmt.Errorf("%s.%s is not a constant or a package-level variable", a.Pkg.Name(), e.Name)
	}
	// tuple component of a Go call result: f(x).0
	if len(a.V.Tuple) > 0 && a.Tuple != nil {
		var n int
		if _, err := fmt.Sscanf(e.Name, "%d", &n); err == nil && n < len(a.V.Tuple) {
			return SpecVal{V: a.V.Tuple[n], Go: a.Tuple.At(n).Type()}, nil
		}
	}
	// result.N
	if e.Args[0].Kind == SIdent && e.Args[0].Name == "result" && len(a.V.Tuple) > 0 {
		var n int
		if _, err := fmt.Sscanf(e.Name, "%d", &n); err == nil && n < len(a.V.Tuple) {
			return SpecVal{V: a.V.Tuple[n], Go: env.resTypes.At(n).Type()}, nil
		}
	}
	if a.Go != nil {
		t := a.Go
		at := env.term(a)
		if p, ok := t.Underlying().(*types.Pointer); ok {
			if u, ok := p.Elem().Underlying().(*types.Struct); ok {
				for i := 0; i < u.NumFields(); i++ {
					if u.Field(i).Name() == e.Name {
						return SpecVal{V: tv(x.readLoc(x.fieldLoc(at, p.Elem(), i))), Go: u.Field(i).Type()}, nil
					}
				}
				// promoted field through an embedded struct
				for i := 0; i < u.NumFields(); i++ {
					if u.Field(i).Embedded() {
						if iu, ok := u.Field(i).Type().Underlying().(*types.Struct); ok {
							for j := 0; j < iu.NumFields(); j++ {
								if iu.Field(j).Name() == e.Name {
									outer := x.readLoc(x.fieldLoc(at, p.Elem(), i))
									name := x.smt.structSort(u.Field(i).Type(), iu)
									return SpecVal{V: tv("(" + x.smt.fieldSel(name, e.Name, j) + " " + outer + ")"), Go: iu.Field(j).Type()}, nil
								}
							}
						}
					}
				}
				return SpecVal{}, fmt.Errorf("no field %s in %s", e.Name, p.Elem())
			}
		}
		if u, ok := t.Underlying().(*types.Struct); ok {
			name := x.smt.structSort(t, u)
			for i := 0; i < u.NumFields(); i++ {
				if u.Field(i).Name() == e.Name {
					return SpecVal{V: tv("(" + x.smt.fieldSel(name, e.Name, i) + " " + at + ")"), Go: u.Field(i).Type()}, nil
				}
			}
			return SpecVal{}, fmt.Errorf("no field %s in %s", e.Name, t)
		}
	}
	// SMT selector
	return sv("(" + e.Name + " " + env.term(a) + ")"), nil
}

func (env *SpecEnv) bin(e *SExpr) (SpecVal, error) {
	a, err := env.ev(e.Args[0])
	if err != nil {
		return SpecVal{}, err
	}
	b, err := env.ev(e.Args[1])
	if err != nil {
		return SpecVal{}, err
	}
	boolT := types.Typ[types.Bool]
	if a.IsNil || b.IsNil {
		o := b
		if b.IsNil {
			o = a
		}
		if a.IsNil && b.IsNil {
			return SpecVal{V: tv("true"), Go: boolT}, nil
		}
		ot := env.term(o)
		var t Term
		switch env.sortOfVal(o) {
		case "Any":
			t = "(= " + ot + " ANil)"
		case "Slice":
			t = "(= (sref " + ot + ") 0)"
		default:
			t = "(= " + ot + " 0)"
		}
		if e.Name == "!=" {
			t = not(t)
		} else if e.Name != "==" {
			return SpecVal{}, fmt.Errorf("nil used with %s", e.Name)
		}
		return SpecVal{V: tv(t), Go: boolT}, nil
	}
	at, bt := env.term(a), env.term(b)
	isF := env.sortOfVal(a) == "F64" || env.sortOfVal(b) == "F64"
	if isF {
		// an integer literal next to a float64 operand is the float of that value
		if e.Args[0].Kind == SInt && env.sortOfVal(a) != "F64" {
			at = "((_ to_fp 11 53) RNE " + e.Args[0].Name + ".0)"
		}
		if e.Args[1].Kind == SInt && env.sortOfVal(b) != "F64" {
			bt = "((_ to_fp 11 53) RNE " + e.Args[1].Name + ".0)"
		}
	}
	var t Term
	var g types.Type = boolT
	switch e.Name {
	case "<==>":
		t = "(= " + at + " " + bt + ")"
	case "==>":
		t = implies(at, bt)
	case "||":
		t = or(at, bt)
	case "&&":
		t = and(at, bt)
	case "==":
		if isF {
			t = "(fp.eq " + at + " " + bt + ")"
		} else {
			t = eq(at, bt)
		}
	case "!=":
		if isF {
			t = "(not (fp.eq " + at + " " + bt + "))"
		} else {
			t = not(eq(at, bt))
		}
	case "<", "<=", ">", ">=":
		if isF {
			op := map[string]string{"<": "fp.lt", "<=": "fp.leq", ">": "fp.gt", ">=": "fp.geq"}[e.Name]
			t = "(" + op + " " + at + " " + bt + ")"
		} else {
			t = "(" + e.Name + " " + at + " " + bt + ")"
		}
	case "+", "-", "*":
		g = a.Go
		if g == nil {
			g = b.Go
		}
		if isF {
			op := map[string]string{"+": "fp.add", "-": "fp.sub", "*": "fp.mul"}[e.Name]
			t = "(" + op + " RNE " + at + " " + bt + ")"
		} else if env.sortOfVal(a) == "Str" && e.Name == "+" {
			t = "(sconcat " + at + " " + bt + ")"
		} else {
			t = "(" + e.Name + " " + at + " " + bt + ")"
		}
	case "/":
		g = a.Go
		if isF {
			t = "(fp.div RNE " + at + " " + bt + ")"
		} else {
			t = "(go_div " + at + " " + bt + ")"
		}
	case "%":
		g = a.Go
		t = "(go_rem " + at + " " + bt + ")"
	default:
		return SpecVal{}, fmt.Errorf("operator %s", e.Name)
	}
	return SpecVal{V: tv(t), Go: g}, nil
}

func (env *SpecEnv) call(e *SExpr) (SpecVal, error) {
	x := env.x
	boolT := types.Typ[types.Bool]
	intT := types.Typ[types.Int]
	switch e.Name {
	case "old":
		if len(e.Args) != 1 {
			return SpecVal{}, fmt.Errorf("old takes one argument")
		}
		saved := x.st
		if env.old != nil {
			o := env.old.clone()
			// old() is about the heap and the ghost state at entry; the function's own
			// local variables keep their current values (they do not exist at entry)
			for k, v := range saved {
				if strings.HasPrefix(k, "cell.") {
					o[k] = v
				}
			}
			x.st = o
		}
		v, err := env.ev(e.Args[0])
		var r SpecVal
		if err == nil {
			r = SpecVal{V: tv(env.term(v)), Go: v.Go}
		}
		x.st = saved
		return r, err
	case "ite":
		if len(e.Args) != 3 {
			return SpecVal{}, fmt.Errorf("ite takes three arguments")
		}
		c, err := env.ev(e.Args[0])
		if err != nil {
			return SpecVal{}, err
		}
		a, err := env.ev(e.Args[1])
		if err != nil {
			return SpecVal{}, err
		}
		b, err := env.ev(e.Args[2])
		if err != nil {
			return SpecVal{}, err
		}
		g := a.Go
		if g == nil {
			g = b.Go
		}
		return SpecVal{V: tv(ite(env.term(c), env.term(a), env.term(b))), Go: g}, nil
	}
	var args []SpecVal
	for _, a := range e.Args {
		v, err := env.ev(a)
		if err != nil {
			return SpecVal{}, err
		}
		args = append(args, v)
	}
	one := func() (SpecVal, Term, error) {
		if len(args) != 1 {
			return SpecVal{}, "", fmt.Errorf("%s takes one argument", e.Name)
		}
		return args[0], env.term(args[0]), nil
	}
	switch e.Name {
	case "len":
		a, at, err := one()
		if err != nil {
			return SpecVal{}, err
		}
		if a.Go != nil {
			switch a.Go.Underlying().(type) {
			case *types.Slice:
				if isByteSlice(a.Go) {
					return SpecVal{V: tv("(strlen " + at + ")"), Go: intT}, nil
				}
				return SpecVal{V: tv("(slen " + at + ")"), Go: intT}, nil
			case *types.Basic:
				return SpecVal{V: tv("(strlen " + at + ")"), Go: intT}, nil
			case *types.Chan:
				return SpecVal{V: tv("(select " + x.getSV("ChLen", arrII) + " " + at + ")"), Go: intT}, nil
			case *types.Map:
				return SpecVal{V: tv(ite("(= "+at+" 0)", "0", "(select "+x.getSV("MapN", arrII)+" "+at+")")), Go: intT}, nil
			}
		}
		return SpecVal{V: tv("(slen " + at + ")"), Go: intT}, nil
	case "rd", "wr", "chlen":
		_, at, err := one()
		if err != nil {
			return SpecVal{}, err
		}
		svn := map[string]string{"rd": "ChRd", "wr": "ChWr", "chlen": "ChLen"}[e.Name]
		return SpecVal{V: tv("(select " + x.getSV(svn, arrII) + " " + at + ")"), Go: intT}, nil
	case "closed":
		_, at, err := one()
		if err != nil {
			return SpecVal{}, err
		}
		return SpecVal{V: tv("(select " + x.getSV("ChClosed", "(Array Int Bool)") + " " + at + ")"), Go: boolT}, nil
	case "has":
		if len(args) != 2 || args[0].Go == nil {
			return SpecVal{}, fmt.Errorf("has(map, key)")
		}
		mt, ok := args[0].Go.Underlying().(*types.Map)
		if !ok {
			return SpecVal{}, fmt.Errorf("has: not a map")
		}
		dsv, dso, _, _ := x.mapSV(mt)
		m := env.term(args[0])
		return SpecVal{V: tv("(and (not (= " + m + " 0)) (select (select " + x.getSV(dsv, dso) + " " + m + ") " + env.term(args[1]) + "))"), Go: boolT}, nil
	case "dyn":
		// dyn(x, "T"): the dynamic type of interface value x is the pointer/named type T
		if len(e.Args) != 2 || e.Args[1].Kind != SStr {
			return SpecVal{}, fmt.Errorf("dyn(x, \"type\")")
		}
		at := env.term(args[0])
		tn := e.Args[1].Name
		if gt, err := env.resolveType(tn); err == nil {
			tn = canonType(gt).String()
		}
		id := x.smt.typeID(tn)
		return SpecVal{V: tv(fmt.Sprintf("(and ((_ is APtr) %s) (= (atype %s) %d))", at, at, id)), Go: boolT}, nil
	case "ptr":
		// ptr(x, "*pkg.T"): the pointer payload of interface value x, typed as *pkg.T
		if len(e.Args) != 2 || e.Args[1].Kind != SStr {
			return SpecVal{}, fmt.Errorf("ptr(x, \"*type\")")
		}
		gt, err := env.resolveType(e.Args[1].Name)
		if err != nil {
			return SpecVal{}, err
		}
		return SpecVal{V: tv("(aref " + env.term(args[0]) + ")"), Go: gt}, nil
	case "box":
		// box(p): the interface value holding the Go value p (as MakeInterface would build it)
		if len(args) != 1 || args[0].Go == nil {
			return SpecVal{}, fmt.Errorf("box(x) needs a Go-typed value")
		}
		v := args[0].V
		if args[0].Cell != nil {
			v = tv(env.term(args[0]))
		}
		return SpecVal{V: tv(x.box(v, args[0].Go)), So: "Any"}, nil
	case "cast":
		// cast(x, "*pkg.T"): the term x (a reference) viewed as a pointer of that Go type
		if len(e.Args) != 2 || e.Args[1].Kind != SStr {
			return SpecVal{}, fmt.Errorf("cast(x, \"*type\")")
		}
		gt, err := env.resolveType(e.Args[1].Name)
		if err != nil {
			return SpecVal{}, err
		}
		return SpecVal{V: tv(env.term(args[0])), Go: gt}, nil
	case "ref":
		_, at, err := one()
		if err != nil {
			return SpecVal{}, err
		}
		return SpecVal{V: tv("(aref " + at + ")"), Go: intT}, nil
	case "typeid":
		if len(e.Args) != 1 || e.Args[0].Kind != SStr {
			return SpecVal{}, fmt.Errorf("typeid(\"type\")")
		}
		return SpecVal{V: tv(intLit(int64(x.smt.typeID(e.Args[0].Name)))), Go: intT}, nil
	case "isANil", "isABool", "isANum", "isAStr", "isAList", "isAMap", "isAPtr", "isAInt", "isAOpaque":
		_, at, err := one()
		if err != nil {
			return SpecVal{}, err
		}
		return SpecVal{V: tv("((_ is " + e.Name[2:] + ") " + at + ")"), Go: boolT}, nil
	case "freshonly":
		// freshonly("SV"): the heap array SV agrees with its function-entry version at every
		// reference that existed at function entry (the code only wrote freshly allocated objects)
		if len(e.Args) != 1 || e.Args[0].Kind != SStr {
			return SpecVal{}, fmt.Errorf("freshonly(\"state variable\")")
		}
		name := e.Args[0].Name
		so, ok := x.svSort[name]
		if !ok {
			return SpecVal{V: tv("true"), Go: boolT}, nil
		}
		cur := x.getSV(name, so)
		ini := x.init[name]
		iniAlloc := x.init["alloc"]
		if env.old != nil {
			// in a callee's contract applied at a call the reference state is the state
			// before the call, not the caller's own entry state
			if t, ok := env.old[name]; ok {
				ini = t
			}
			if a, ok := env.old["alloc"]; ok {
				iniAlloc = a
			}
		}
		if cur == ini {
			return SpecVal{V: tv("true"), Go: boolT}, nil
		}
		return SpecVal{V: tv(fmt.Sprintf("(forall ((r Int)) (=> (and (<= 0 r) (< r %s)) (= (select %s r) (select %s r))))", iniAlloc, cur, ini)), Go: boolT}, nil
	case "visited":
		// visited(k): key k has already been produced by the map iteration of the loop
		// whose invariant is being evaluated
		if len(args) != 1 {
			return SpecVal{}, fmt.Errorf("visited(key)")
		}
		if env.blk == nil {
			return SpecVal{}, fmt.Errorf("visited() is only meaningful in the invariant of a map-range loop")
		}
		for _, ins := range env.blk.Instrs {
			if nx, ok := ins.(*ssa.Next); ok {
				if rng, ok := nx.Iter.(*ssa.Range); ok {
					if mt, ok := rng.X.Type().Underlying().(*types.Map); ok {
						svn := x.iterSV[rng]
						if svn == "" {
							return SpecVal{}, fmt.Errorf("visited(): iterator not initialised")
						}
						ks := x.smt.sortOf(mt.Key())
						return SpecVal{V: tv("(select " + x.getSV(svn, "(Array "+ks+" Bool)") + " " + env.term(args[0]) + ")"), Go: boolT}, nil
					}
				}
			}
		}
		return SpecVal{}, fmt.Errorf("visited(): the loop does not range over a map")
	case "same":
		// identity (SMT =), as opposed to Go's == which is fp.eq on floats
		if len(args) != 2 {
			return SpecVal{}, fmt.Errorf("same(a, b)")
		}
		return SpecVal{V: tv(eq(env.term(args[0]), env.term(args[1]))), Go: boolT}, nil
	case "i2f":
		// float64(n) for an integer n, as the code's conversion computes it
		if len(args) != 1 {
			return SpecVal{}, fmt.Errorf("i2f(n)")
		}
		return SpecVal{V: tv("((_ to_fp 11 53) RNE (to_real " + env.term(args[0]) + "))"), Go: types.Typ[types.Float64]}, nil
	case "isnan", "isinf", "isneg", "iszero":
		// IEEE classification of a float64 term
		if len(args) != 1 {
			return SpecVal{}, fmt.Errorf("%s(f)", e.Name)
		}
		op := map[string]string{"isnan": "fp.isNaN", "isinf": "fp.isInfinite", "isneg": "fp.isNegative", "iszero": "fp.isZero"}[e.Name]
		return SpecVal{V: tv("(" + op + " " + env.term(args[0]) + ")"), Go: boolT}, nil
	case "anyat":
		if len(args) != 2 {
			return SpecVal{}, fmt.Errorf("anyat(slice, index)")
		}
		s := env.term(args[0])
		return SpecVal{V: tv("(select (select " + x.getSV("SH.Any", "(Array Int (Array Int Any))") + " (sref " + s + ")) (ix (soff " + s + ") " + env.term(args[1]) + "))")}, nil
	case "backing":
		// backing(s): the array of elements a slice views (indexed from its offset)
		a, at, err := one()
		if err != nil {
			return SpecVal{}, err
		}
		if a.Go == nil {
			return SpecVal{}, fmt.Errorf("backing: untyped")
		}
		st, ok := a.Go.Underlying().(*types.Slice)
		if !ok {
			return SpecVal{}, fmt.Errorf("backing: not a slice")
		}
		hsv, hso, _ := x.sliceHeap(st.Elem())
		return SpecVal{V: tv("(select " + x.getSV(hsv, hso) + " (sref " + at + "))")}, nil
	case "jhas":
		// jhas(v, key): v is a JSON object (map[string]interface{}) that has the key
		if len(args) != 2 {
			return SpecVal{}, fmt.Errorf("jhas(value, key)")
		}
		v := env.term(args[0])
		return SpecVal{V: tv("(and ((_ is AMap) " + v + ") (not (= (amap " + v + ") 0)) (select (select " + x.getSV("MapD.Str", "(Array Int (Array Str Bool))") + " (amap " + v + ")) " + env.term(args[1]) + "))"), Go: boolT}, nil
	case "strlist":
		a, _, err := one()
		if err != nil {
			return SpecVal{}, err
		}
		if a.Go == nil {
			return SpecVal{}, fmt.Errorf("strlist: untyped")
		}
		l, ok := x.strList(a.V, a.Go.Underlying().(*types.Slice).Elem())
		if !ok {
			return SpecVal{}, fmt.Errorf("strlist: length not statically known")
		}
		return sv(l), nil
	}
	if r, ok, err := env.methodTableBuiltin(e.Name, args); ok {
		return r, err
	}
	if r, ok, err := env.kvBuiltin(e.Name, args); ok {
		return r, err
	}
	// code lemmas: a call of a real function of the package (executed from its SSA,
	// or replaced by its contract when it has one)
	if env.spkg == nil && env.pkg != nil && !env.lemma {
		// function contracts may call small pure helpers of their own package (key
		// builders): executed from their SSA like in a code lemma
		env.spkg = x.V.Pkgs[env.pkg.Path()]
	}
	callPkg, callName := env.spkg, e.Name
	if i := strings.Index(e.Name, "."); i > 0 {
		// pkg.Func: a function of a package the contract's package imports
		callPkg = nil
		if env.pkg != nil {
			for _, imp := range env.pkg.Imports() {
				if imp.Name() == e.Name[:i] {
					callPkg = x.V.Pkgs[imp.Path()]
				}
			}
		}
		if callPkg == nil {
			return SpecVal{}, fmt.Errorf("%s: package %s is not imported by the contract's package or not loaded (option load=)", e.Name, e.Name[:i])
		}
		callName = e.Name[i+1:]
		if callPkg.Func(callName) == nil {
			return SpecVal{}, fmt.Errorf("%s: no such function", e.Name)
		}
	}
	if callPkg != nil {
		if f := callPkg.Func(callName); f != nil && f.Blocks != nil && (env.lemma || x.V.contractFor(f) == nil && x.canInline(f)) {
			var vals []Val
			for _, a := range args {
				if a.Cell != nil {
					vals = append(vals, tv(env.term(a)))
				} else {
					vals = append(vals, a.V)
				}
			}
			var out Val
			savedReach := x.reach
			if env.lemma || x.reach == "" {
				x.reach = "true"
			}
			x.callFunction(f, nil, vals, nil, func(v Val) { out = v }, f.Pos())
			x.reach = savedReach
			res := f.Signature.Results()
			switch res.Len() {
			case 0:
				return SpecVal{}, fmt.Errorf("%s returns nothing", e.Name)
			case 1:
				return SpecVal{V: out, Go: res.At(0).Type()}, nil
			}
			return SpecVal{V: out, Tuple: res}, nil
		}
	}
	var ts []string
	for _, a := range args {
		ts = append(ts, env.term(a))
	}
	r := sv(app(e.Name, ts...))
	r.So = x.smt.declaredSort(e.Name)
	return r, nil
}

// specEnvAt builds the environment for the function's own contract at block b.
func (x *Exec) specEnvAt(b *ssa.BasicBlock, rp *retPoint) *SpecEnv {
	env := &SpecEnv{vars: map[string]SpecVal{}, x: x, st: x.st, old: x.init, blk: b}
	if x.c != nil {
		env.lets = x.c.Lets
	}
	fn := x.fn
	for _, p := range fn.Params {
		env.vars[p.Name()] = SpecVal{V: x.vals[p], Go: p.Type()}
	}
	for _, fv := range fn.FreeVars {
		v := x.vals[fv]
		if v.Loc != nil {
			env.vars[fv.Name()] = SpecVal{Cell: v.Loc, Go: fv.Type().(*types.Pointer).Elem()}
		}
	}
	// named locals. The value a source variable has at b is that of its last definition
	// on the dominator chain of b: a DebugRef of an assignment, or the phi that merges
	// assignments made on different branches (go/ssa records the variable's name in the
	// phi's comment). Blocks are therefore visited in dominance order.
	order := fn.Blocks
	if b != nil {
		var chain []*ssa.BasicBlock
		for _, blk := range fn.Blocks {
			if blk == b || blk.Dominates(b) {
				chain = append(chain, blk)
			}
		}
		depth := func(d *ssa.BasicBlock) int {
			n := 0
			for _, o := range chain {
				if o != d && o.Dominates(d) {
					n++
				}
			}
			return n
		}
		sort.SliceStable(chain, func(i, j int) bool { return depth(chain[i]) < depth(chain[j]) })
		// allocations are named wherever they are (cells are read at evaluation time)
		var rest []*ssa.BasicBlock
		for _, blk := range fn.Blocks {
			if !(blk == b || blk.Dominates(b)) {
				rest = append(rest, blk)
			}
		}
		order = append(rest, chain...)
	}
	for _, blk := range order {
		for _, ins := range blk.Instrs {
			switch i := ins.(type) {
			case *ssa.Phi:
				if i.Comment == "" || strings.Contains(i.Comment, " ") || b == nil || !(blk == b || blk.Dominates(b)) {
					continue
				}
				if prev, ok := env.vars[i.Comment]; ok && prev.Cell != nil {
					continue
				}
				if v, ok := x.vals[i]; ok && v.Loc == nil && v.Fn == nil && v.T != "" && len(v.Tuple) == 0 {
					env.vars[i.Comment] = SpecVal{V: v, Go: i.Type()}
				}
			case *ssa.Alloc:
				if i.Comment != "" && !strings.Contains(i.Comment, " ") {
					if v, ok := x.vals[i]; ok && v.Loc != nil && (v.Loc.Kind == LCell || v.Loc.Kind == LBox) {
						if _, dup := env.vars[i.Comment]; !dup {
							env.vars[i.Comment] = SpecVal{Cell: v.Loc, Go: i.Type().(*types.Pointer).Elem()}
						}
					} else if ok && v.Loc == nil && v.T != "" {
						// a local struct variable: named by its reference (fields read through the heap)
						if _, isStruct := i.Type().(*types.Pointer).Elem().Underlying().(*types.Struct); isStruct {
							if _, dup := env.vars[i.Comment]; !dup {
								env.vars[i.Comment] = SpecVal{V: v, Go: i.Type()}
							}
						}
					}
				}
			case *ssa.DebugRef:
				if i.IsAddr || i.X == nil {
					continue
				}
				id := i.Object()
				if id == nil {
					continue
				}
				if _, isParam := i.X.(*ssa.Parameter); isParam {
					continue
				}
				val, ok := x.vals[i.X]
				if !ok {
					if c, isConst := i.X.(*ssa.Const); isConst {
						if c.Value == nil {
							// `v := T{}` of a map or slice type is recorded by go/ssa as a reference to
							// the nil constant; the variable is the value every later reference names
							if sv, ok := singleValue(fn, id); ok {
								if vv, ok := x.vals[sv]; ok && (b == nil || sv.(ssa.Instruction).Block() == b || sv.(ssa.Instruction).Block().Dominates(b)) {
									env.vars[id.Name()] = SpecVal{V: vv, Go: sv.Type()}
									continue
								}
							}
						}
						val = x.constVal(c)
					} else {
						continue
					}
				}
				if b != nil && !(blk == b || blk.Dominates(b)) {
					continue
				}
				if prev, ok := env.vars[id.Name()]; ok && prev.Cell != nil {
					// the variable lives in a cell: always read through it (a value
					// loaded earlier may be stale)
					continue
				}
				env.vars[id.Name()] = SpecVal{V: val, Go: i.X.Type()}
			}
		}
	}
	// loop-carried variables of the loops enclosing b (innermost last)
	if b != nil {
		var hs []*ssa.BasicBlock
		for h, body := range x.loopOf {
			if body[b] {
				hs = append(hs, h)
			}
		}
		// outer loops first: larger bodies first
		for i := 0; i < len(hs); i++ {
			for j := i + 1; j < len(hs); j++ {
				if len(x.loopOf[hs[j]]) > len(x.loopOf[hs[i]]) {
					hs[i], hs[j] = hs[j], hs[i]
				}
			}
		}
		for _, h := range hs {
			// rangechan: the channel a `for v := range <expression>` loop receives from,
			// when the expression has no name of its own (innermost such loop)
			for _, ins := range h.Instrs {
				if u, ok := ins.(*ssa.UnOp); ok && u.Op == token.ARROW && u.CommaOk {
					if v, ok := x.vals[u.X]; ok {
						env.vars["rangechan"] = SpecVal{V: v, Go: u.X.Type()}
					}
				}
			}
			for _, ins := range h.Instrs {
				phi, ok := ins.(*ssa.Phi)
				if !ok {
					break
				}
				if phi.Comment != "" {
					// never over a definition found on the dominator chain: an assignment
					// made after the loop head (`found = false` at the top of the body) is
					// later than the head's phi
					if _, dup := env.vars[phi.Comment]; dup {
						continue
					}
					if v, ok := x.vals[phi]; ok {
						env.vars[phi.Comment] = SpecVal{V: v, Go: phi.Type()}
					}
				}
			}
		}
	}
	if rp != nil {
		env.st = rp.st
		env.resTypes = fn.Signature.Results()
		if len(rp.vals) == 1 {
			env.results = rp.vals[0]
		} else {
			env.results = Val{Tuple: rp.vals, KnownLen: -1}
		}
	}
	return env
}

// singleValue: every reference go/ssa recorded for the variable, other than constants,
// names one and the same instruction value (the variable is assigned once).
func singleValue(fn *ssa.Function, obj types.Object) (ssa.Value, bool) {
	var v ssa.Value
	for _, blk := range fn.Blocks {
		for _, ins := range blk.Instrs {
			switch i := ins.(type) {
			case *ssa.DebugRef:
				if i.IsAddr || i.X == nil || i.Object() != obj {
					continue
				}
				if _, isConst := i.X.(*ssa.Const); isConst {
					continue
				}
				if _, isInstr := i.X.(ssa.Instruction); !isInstr {
					return nil, false
				}
				if v != nil && v != i.X {
					return nil, false
				}
				v = i.X
			case *ssa.Phi:
				if i.Comment == obj.Name() {
					return nil, false
				}
			}
		}
	}
	return v, v != nil
}
