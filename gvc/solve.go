package main

import (
	"bytes"
	"context"
	"fmt"
	"os"
	"os/exec"
	"path/filepath"
	"runtime"
	"sort"
	"strings"
	"sync"
	"sync/atomic"
	"time"
)

// querySeq makes every query file name unique (two obligations never share a file).
var querySeq int64

type solverSpec struct {
	name string
	args func(file string, timeoutS int) []string
}

var solvers = []solverSpec{
	{"z3-new", func(f string, t int) []string { return []string{"z3-new", fmt.Sprintf("-T:%d", t), f} }},
	{"z3", func(f string, t int) []string { return []string{"z3", fmt.Sprintf("-T:%d", t), f} }},
	{"cvc5", func(f string, t int) []string {
		return []string{"cvc5", "--produce-models", fmt.Sprintf("--tlimit=%d", t*1000), f}
	}},
	{"cvc5-enum", func(f string, t int) []string {
		return []string{"cvc5", "--produce-models", "--full-saturate-quant", fmt.Sprintf("--tlimit=%d", t*1000), f}
	}},
}

type solveResult struct {
	solver string
	ans    string // unsat | sat | unknown | timeout | error
	out    string
	secs   float64
}

func (o *Oblig) render() string {
	if len(o.Parts) > 0 {
		var sb strings.Builder
		for i := range o.Parts {
			sb.WriteString(o.renderPart(o.Parts[i].Goal, o.Parts[i].Anc))
		}
		return sb.String()
	}
	return o.renderPart(o.Goal, o.Anc)
}

func (o *Oblig) renderPart(goal Term, anc map[int]bool) string {
	x := o.ex
	var sb strings.Builder
	sb.WriteString("; obligation " + o.Name + "\n")
	sb.WriteString(x.smt.header("(set-logic ALL)\n"))
	n := o.NLines
	if n > len(x.smt.lines) {
		n = len(x.smt.lines)
	}
	for i, l := range x.smt.lines[:n] {
		if anc != nil {
			ow := x.smt.owners[i]
			if ow >= 0 && !anc[ow] && !strings.HasPrefix(l, "(declare-") {
				continue
			}
		}
		sb.WriteString(l + "\n")
	}
	sb.WriteString("(assert (not " + goal + "))\n")
	sb.WriteString("(check-sat)\n")
	return sb.String()
}

// procSem bounds the number of solver processes running at once, so the checks do
// not starve their own solvers (wall-clock timeouts start when a process starts).
var procSem = make(chan struct{}, solverProcs())

func solverProcs() int {
	n := runtime.NumCPU()
	if n < 4 {
		n = 4
	}
	return n
}

func runSolver(ctx context.Context, s solverSpec, file string, timeoutS int) solveResult {
	select {
	case procSem <- struct{}{}:
	case <-ctx.Done():
		return solveResult{s.name, "timeout", "cancelled before start", 0}
	}
	defer func() { <-procSem }()
	t0 := time.Now()
	args := s.args(file, timeoutS)
	cctx, cancel := context.WithTimeout(ctx, time.Duration(timeoutS+2)*time.Second)
	defer cancel()
	cmd := exec.CommandContext(cctx, args[0], args[1:]...)
	var out bytes.Buffer
	cmd.Stdout = &out
	cmd.Stderr = &out
	err := cmd.Run()
	secs := time.Since(t0).Seconds()
	text := out.String()
	first := ""
	for _, ln := range strings.Split(text, "\n") {
		ln = strings.TrimSpace(ln)
		if ln == "sat" || ln == "unsat" || ln == "unknown" || ln == "timeout" {
			first = ln
			break
		}
		if strings.HasPrefix(ln, "(error") || strings.Contains(ln, "Parse Error") {
			first = "error"
			break
		}
	}
	switch first {
	case "unsat", "sat", "unknown":
		return solveResult{s.name, first, text, secs}
	case "timeout":
		return solveResult{s.name, "timeout", text, secs}
	}
	if cctx.Err() != nil {
		return solveResult{s.name, "timeout", text, secs}
	}
	if strings.Contains(text, "interrupted") || strings.Contains(text, "timeout") {
		return solveResult{s.name, "timeout", text, secs}
	}
	_ = err
	return solveResult{s.name, "error", text, secs}
}

// solve discharges one obligation: every sub-goal must be unsat.
func (v *Verifier) solve(o *Oblig, dir string, all bool) {
	if o.Status != "" {
		return
	}
	if o.Canary {
		v.solveCanary(o, dir)
		return
	}
	parts := o.Parts
	if len(parts) == 0 {
		parts = []obPart{{Goal: o.Goal, Anc: o.Anc}}
	}
	var outs []string
	status := "proved"
	var mu sync.Mutex
	var pwg sync.WaitGroup
	psem := make(chan struct{}, 4)
	for i, p := range parts {
		if p.Done {
			continue
		}
		pwg.Add(1)
		psem <- struct{}{}
		go func(i int, p obPart) {
			defer pwg.Done()
			defer func() { <-psem }()
			q := o.renderPart(p.Goal, p.Anc)
			suffix := ""
			if len(parts) > 1 {
				suffix = fmt.Sprintf(".part%d", i+1)
			}
			file := filepath.Join(dir, fmt.Sprintf("q%05d-", atomic.AddInt64(&querySeq, 1))+sanitizeFile(o.Name)+suffix+".smt2")
			os.WriteFile(file, []byte(q+"(get-model)\n"), 0o644)
			rv := v
			if o.Expected {
				// listed as a known finding: it is expected not to discharge, so do not
				// spend the full timeout on it (a short attempt still notices a repair)
				rv = &Verifier{Timeout: 3}
				if v.Timeout < 3 {
					rv.Timeout = v.Timeout
				}
			}
			st, solver, secs, out, model := rv.race(file, all)
			mu.Lock()
			defer mu.Unlock()
			o.Secs += secs
			if len(parts) > 1 {
				out = fmt.Sprintf("[part %d/%d] %s", i+1, len(parts), out)
			}
			switch st {
			case "proved":
				if o.Solver == "" {
					o.Solver = solver
				}
				if i < len(o.Parts) {
					o.Parts[i].Done = true // a later retry only repeats the undecided sub-goals
				}
				if len(parts) == 1 {
					outs = append(outs, out)
				}
			case "failed":
				status = "failed"
				o.Solver = solver
				o.Model = model
				o.Query = file
				outs = append(outs, out)
			default:
				if status != "failed" {
					status = "unknown"
					o.Query = file
				}
				outs = append(outs, out)
			}
		}(i, p)
	}
	pwg.Wait()
	if o.Query == "" && len(parts) > 0 {
		o.Query = filepath.Join(dir, sanitizeFile(o.Name)+map[bool]string{true: ".part1", false: ""}[len(parts) > 1]+".smt2")
	}
	o.Status = status
	o.Output = strings.Join(outs, "; ")
	if o.Output == "" {
		o.Output = fmt.Sprintf("%d sub-goals unsat", len(parts))
	}
}

// solveCanary: vacuity guard. The function's assumptions must leave at least one
// return point reachable; tries the return points with the shortest paths first.
func (v *Verifier) solveCanary(o *Oblig, dir string) {
	parts := append([]obPart{}, o.Parts...)
	if len(parts) == 0 {
		parts = []obPart{{Goal: o.Goal, Anc: o.Anc}}
	}
	sort.SliceStable(parts, func(i, j int) bool { return len(parts[i].Anc) < len(parts[j].Anc) })
	allUnsat := true
	var outs []string
	for i, p := range parts {
		if i >= 2 {
			allUnsat = false
			break
		}
		file := filepath.Join(dir, fmt.Sprintf("q%05d-", atomic.AddInt64(&querySeq, 1))+sanitizeFile(o.Name)+fmt.Sprintf(".part%d", i+1)+".smt2")
		os.WriteFile(file, []byte(o.renderPart(p.Goal, p.Anc)), 0o644)
		// one quick attempt with z3 5.x and one with z3 4.8 (they find models for the
		// quantifier-light paths; "unknown" is accepted, only "unsat" is an alarm)
		st, solver, secs, out := "unknown", "", 0.0, ""
		for _, sv := range []solverSpec{solvers[0], solvers[1]} {
			r := runSolver(context.Background(), sv, file, 1)
			secs += r.secs
			out += fmt.Sprintf("%s=%s(%.2fs) ", r.solver, r.ans, r.secs)
			if r.ans == "sat" {
				st, solver = "failed", r.solver
				break
			}
			if r.ans == "unsat" {
				st, solver = "proved", r.solver
				break
			}
		}
		o.Secs += secs
		outs = append(outs, out)
		if st == "failed" { // 'unreachable' refuted: reachable
			o.Status, o.Solver, o.Output = "failed", solver, strings.Join(outs, "; ")
			return
		}
		if st != "proved" {
			allUnsat = false
		}
	}
	o.Output = strings.Join(outs, "; ")
	if allUnsat {
		o.Status = "proved"
	} else {
		o.Status = "unknown"
	}
}

// solveBundles: for functions with many return points, first try to discharge all
// postcondition clauses of one return point with a single query.
func (v *Verifier) solveBundles(obs []*Oblig, dir string, par int) {
	type bundle struct {
		obs []*Oblig
		idx int
	}
	byExec := map[*Exec][]*Oblig{}
	var order []*Exec
	for _, o := range obs {
		if o.Kind == "ensures" && len(o.Parts) > 1 && o.Status == "" {
			if _, ok := byExec[o.ex]; !ok {
				order = append(order, o.ex)
			}
			byExec[o.ex] = append(byExec[o.ex], o)
		}
	}
	var bundles []bundle
	for _, ex := range order {
		os_ := byExec[ex]
		if len(os_) < 2 {
			continue
		}
		n := len(os_[0].Parts)
		same := true
		for _, o := range os_ {
			if len(o.Parts) != n {
				same = false
			}
		}
		if !same {
			continue
		}
		for i := 0; i < n; i++ {
			bundles = append(bundles, bundle{os_, i})
		}
	}
	sem := make(chan struct{}, par)
	var wg sync.WaitGroup
	for bi, b := range bundles {
		wg.Add(1)
		sem <- struct{}{}
		go func(bi int, b bundle) {
			defer wg.Done()
			defer func() { <-sem }()
			var goals []Term
			for _, o := range b.obs {
				goals = append(goals, o.Parts[b.idx].Goal)
			}
			o0 := b.obs[0]
			file := filepath.Join(dir, fmt.Sprintf("bundle%d-%s.smt2", bi, sanitizeFile(o0.Func)))
			os.WriteFile(file, []byte(o0.renderPart(and(goals...), o0.Parts[b.idx].Anc)), 0o644)
			// a bundle is only a shortcut: one short attempt, no solver race
			r := runSolver(context.Background(), solvers[0], file, 2)
			st, solver, secs := "unknown", r.solver, r.secs
			if r.ans == "unsat" {
				st = "proved"
			}
			if st == "proved" {
				for _, o := range b.obs {
					o.Parts[b.idx].Done = true
					if o.Solver == "" {
						o.Solver = solver
					}
				}
				o0.Secs += secs
			}
		}(bi, b)
	}
	wg.Wait()
}

// race runs the installed solvers on one query file; the first definite answer wins.
// Stage 1 tries z3 5.x alone for a short time (most obligations are decided there);
// stage 2 races all back ends.
func (v *Verifier) race(file string, all bool) (status, solver string, secs float64, output, model string) {
	if !all {
		t1 := 2
		if v.Timeout < t1 {
			t1 = v.Timeout
		}
		r := runSolver(context.Background(), solvers[0], file, t1)
		if r.ans == "unsat" {
			return "proved", r.solver, r.secs, fmt.Sprintf("%s=unsat(%.2fs)", r.solver, r.secs), ""
		}
		if r.ans == "sat" {
			return "failed", r.solver, r.secs, fmt.Sprintf("%s=sat(%.2fs)", r.solver, r.secs), r.out
		}
	}
	ctx, cancel := context.WithCancel(context.Background())
	defer cancel()
	ch := make(chan solveResult, len(solvers))
	var wg sync.WaitGroup
	for _, s := range solvers {
		wg.Add(1)
		go func(s solverSpec) {
			defer wg.Done()
			ch <- runSolver(ctx, s, file, v.Timeout)
		}(s)
	}
	go func() { wg.Wait(); close(ch) }()
	var results []solveResult
	var decided *solveResult
	for r := range ch {
		results = append(results, r)
		if (r.ans == "unsat" || r.ans == "sat") && decided == nil {
			rr := r
			decided = &rr
			if !all {
				cancel()
			} else {
				// thorough tier: the other back ends get a grace period to agree or
				// disagree, not their whole time limit
				time.AfterFunc(15*time.Second, cancel)
			}
		}
	}
	var sum []string
	disagree := false
	for _, r := range results {
		if r.ans == "timeout" && decided != nil && !all {
			continue // cancelled by the race
		}
		sum = append(sum, fmt.Sprintf("%s=%s(%.2fs)", r.solver, r.ans, r.secs))
		if decided != nil && (r.ans == "sat" || r.ans == "unsat") && r.ans != decided.ans {
			disagree = true
		}
	}
	output = strings.Join(sum, " ")
	if decided == nil {
		for _, r := range results {
			if r.secs > secs {
				secs = r.secs
			}
			if r.ans == "error" && len(output) < 1500 {
				output += "\n" + r.solver + ": " + firstLines(r.out, 4)
			}
		}
		return "unknown", "", secs, output, ""
	}
	if disagree {
		return "unknown", decided.solver, decided.secs, output + " SOLVERS DISAGREE", ""
	}
	if decided.ans == "unsat" {
		return "proved", decided.solver, decided.secs, output, ""
	}
	return "failed", decided.solver, decided.secs, output, decided.out
}

func firstLines(s string, n int) string {
	ls := strings.Split(s, "\n")
	if len(ls) > n {
		ls = ls[:n]
	}
	return strings.Join(ls, "\n")
}

func sanitizeFile(s string) string {
	r := strings.NewReplacer("/", "_", ":", "_", "#", "-", "(", "", ")", "", "*", "P", "$", "S", " ", "_", "@", "-at-", "|", "")
	s = r.Replace(s)
	if len(s) > 150 {
		s = s[len(s)-150:]
	}
	return s
}

// retryTimeouts: an obligation none of whose sub-goals was refuted, and whose
// undecided sub-goals only ran out of time, gets one more attempt with nine times
// the time limit and little parallelism. On a loaded machine this separates "the
// solvers were starved" from "does not discharge"; it never turns a refutation
// (sat) into a pass.
func (v *Verifier) retryTimeouts(obs []*Oblig, dir string, all bool) {
	var again []*Oblig
	for _, o := range obs {
		if o.Status == "unknown" && !o.Expected && !o.Canary && o.Kind != "contract" && o.ex != nil &&
			strings.Contains(o.Output, "timeout") && !strings.Contains(o.Output, "=sat") && !strings.Contains(o.Output, "error") {
			again = append(again, o)
		}
	}
	if len(again) == 0 {
		return
	}
	rv := *v
	// nine times the limit, two obligations at a time: the floating-point obligations of the histogram arm need 13-19 s
	// on an idle machine and ran out of a 30 s limit on a busy one (11.4, false alarm 11)
	rv.Timeout = v.Timeout * 9
	par := 2
	if len(again) > 8 {
		// many undecided obligations are a changed tree rather than a starved solver:
		// keep the run short (three times the limit, more at a time)
		rv.Timeout = v.Timeout * 3
		par = 4
	}
	for _, o := range again {
		o.FirstTry = o.Output
		o.Status, o.Output = "", ""
	}
	rv.solveAll(again, dir, all, par)
	for _, o := range again {
		o.Output = o.Output + " (second attempt with a " + fmt.Sprint(rv.Timeout) + " s limit; first attempt: " + o.FirstTry + ")"
	}
}

func (v *Verifier) solveAll(obs []*Oblig, dir string, all bool, par int) {
	sem := make(chan struct{}, par)
	var wg sync.WaitGroup
	for _, o := range obs {
		wg.Add(1)
		sem <- struct{}{}
		go func(o *Oblig) {
			defer wg.Done()
			defer func() { <-sem }()
			v.solve(o, dir, all)
		}(o)
	}
	wg.Wait()
}
