; ---- context.Context: the channel ctx.Done() returns, named so that a contract can say
; ---- "the context is not cancelled" (the channel carries nothing and is never closed)
(declare-fun ctxdone (Any) Int)
