; ---- values a leading filter names (C02) ----
; pbstr(v): GetStringValue of the structpb value at reference v (named result of a pure accessor)
(declare-fun pbstr (Int) Str)
; hvlen(h), hvstr(h, j): the list extractHasVals returns for the has-statement at reference h
(declare-fun hvlen (Int) Int)
(declare-fun hvstr (Int Int) Str)
(assert (forall ((h Int)) (! (>= (hvlen h) 0) :pattern ((hvlen h)))))
; stepname(ref, off, j): the step id PipelineSteps assigns to statement j of the statement slice (ref, off)
(declare-fun stepname (Int Int Int) Str)
