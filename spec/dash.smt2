; ---- "-"-separated composite ids (gripper edge ids, C15) ----
; @strconst lit_dash "-"
; @literal nodash
(declare-const lit_dash Str)
(declare-fun nodash (Str) Bool)
(assert (forall ((a Str) (b Str)) (! (= (nodash (sconcat a b)) (and (nodash a) (nodash b))) :pattern ((sconcat a b)))))
; strings.Split(a + "-" + b + "-" + c, "-") for dash-free a, b, c (validated by scripts/validate_axioms)
(assert (forall ((a Str) (b Str) (c Str)) (! (=> (and (nodash a) (nodash b) (nodash c))
   (= (bsplit (sconcat (sconcat (sconcat (sconcat a lit_dash) b) lit_dash) c) lit_dash) (scons a (scons b (scons c snil)))))
   :pattern ((sconcat (sconcat (sconcat (sconcat a lit_dash) b) lit_dash) c)))))
