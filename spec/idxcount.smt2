; requires kv.smt2 (ble, blt)
; ---- counting the stored keys under a prefix (finite-set cardinality, abstract) ----
; pcount(dom, pre): number of keys of dom that have the byte prefix pre.
; pbelow(dom, pre, k): number of keys of dom with prefix pre that sort strictly before k.
; The axioms are facts of finite ordered sets (validated on small sets by scripts/validate_axioms).
(declare-fun pcount ((Array Str Bool) Str) Int)
(declare-fun pbelow ((Array Str Bool) Str Str) Int)
(assert (forall ((d (Array Str Bool)) (p Str)) (! (>= (pcount d p) 0) :pattern ((pcount d p)))))
(assert (forall ((d (Array Str Bool)) (p Str) (k Str)) (! (and (>= (pbelow d p k) 0) (<= (pbelow d p k) (pcount d p))) :pattern ((pbelow d p k)))))
; removing / adding one key
(assert (forall ((d (Array Str Bool)) (p Str) (k Str)) (! (= (pcount (store d k false) p) (ite (and (select d k) (hasprefix k p)) (- (pcount d p) 1) (pcount d p))) :pattern ((pcount (store d k false) p)))))
(assert (forall ((d (Array Str Bool)) (p Str) (k Str)) (! (= (pcount (store d k true) p) (ite (and (not (select d k)) (hasprefix k p)) (+ (pcount d p) 1) (pcount d p))) :pattern ((pcount (store d k true) p)))))
; a stored key with the prefix is counted
(assert (forall ((d (Array Str Bool)) (p Str) (k Str)) (! (=> (and (select d k) (hasprefix k p)) (>= (pcount d p) 1)) :pattern ((select d k) (hasprefix k p) (pcount d p)))))
; scanning in key order: nothing with the prefix lies below the first key at or after the prefix;
; stepping over a key that has the prefix adds one; once the position leaves the prefix (or the scan
; is exhausted) everything has been counted
(assert (forall ((d (Array Str Bool)) (p Str) (k Str)) (! (=> (forall ((j Str)) (=> (and (select d j) (ble p j)) (ble k j))) (= (pbelow d p k) 0)) :pattern ((pbelow d p k)))))
(assert (forall ((d (Array Str Bool)) (p Str) (k Str) (n Str)) (! (=> (and (select d k) (hasprefix k p) (blt k n) (forall ((j Str)) (=> (and (select d j) (blt k j)) (ble n j))))
   (= (pbelow d p n) (+ (pbelow d p k) 1))) :pattern ((pbelow d p k) (pbelow d p n)))))
(assert (forall ((d (Array Str Bool)) (p Str) (k Str)) (! (=> (and (select d k) (ble p k) (not (hasprefix k p))) (= (pbelow d p k) (pcount d p))) :pattern ((pbelow d p k)))))
(assert (forall ((d (Array Str Bool)) (p Str) (k Str)) (! (=> (and (select d k) (hasprefix k p) (not (exists ((j Str)) (and (select d j) (blt k j))))) (= (pcount d p) (+ (pbelow d p k) 1))) :pattern ((pbelow d p k)))))
(assert (forall ((d (Array Str Bool)) (p Str)) (! (=> (not (exists ((j Str)) (and (select d j) (ble p j)))) (= (pcount d p) 0)) :pattern ((pcount d p)))))
