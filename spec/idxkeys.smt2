; ---- kvindex key layout (C09): spec vocabulary on top of keys.smt2 ----
; @strconst lit_if "f"
; @strconst lit_it "t"
; @strconst lit_ii "i"
; @strconst lit_iD "D"
(declare-const lit_if Str)
(declare-const lit_it Str)
(declare-const lit_ii Str)
(declare-const lit_iD Str)
(declare-fun substr (Str Int Int) Str)
; layout functions (each proved equal to the real builder by the code lemma idxkeys.layout)
(define-fun fieldKeyOf ((f Str)) Str (bjoin (scons lit_if (scons f snil)) sep0))
(define-fun termKeyOf ((f Str) (tt Int) (t Str)) Str (bjoin (scons lit_it (scons f (scons (byte1 tt) (scons t snil)))) sep0))
(define-fun entryKeyOf ((f Str) (tt Int) (t Str) (d Str)) Str (bjoin (scons lit_ii (scons f (scons (byte1 tt) (scons t (scons d snil))))) sep0))
(define-fun docKeyOf ((d Str)) Str (bjoin (scons lit_iD (scons d snil)) sep0))
(define-fun entryValuePrefixOf ((f Str) (tt Int) (t Str)) Str (bjoin (scons lit_ii (scons f (scons (byte1 tt) (scons t (scons (bzero 0) snil))))) sep0))
; --- standard-library axioms (bytes.SplitN, slicing of a joined pair), validated by the bounded
; --- differential test scripts/validate_axioms (run by the thorough tier)
; N4: SplitN(.., 4) of a join whose first three components are NUL-free: the fourth piece is the rest
(assert (forall ((a Str) (b Str) (c Str) (t Str)) (! (=> (and (nozero a) (nozero b) (nozero c))
   (= (bsplitn (bjoin (scons a (scons b (scons c (scons t snil)))) sep0) sep0 4) (scons a (scons b (scons c (scons t snil))))))
   :pattern ((bjoin (scons a (scons b (scons c (scons t snil)))) sep0)))))
(assert (forall ((a Str) (b Str) (c Str) (t Str) (d Str)) (! (=> (and (nozero a) (nozero b) (nozero c))
   (= (bsplitn (bjoin (scons a (scons b (scons c (scons t (scons d snil))))) sep0) sep0 4)
      (scons a (scons b (scons c (scons (bjoin (scons t (scons d snil)) sep0) snil))))))
   :pattern ((bjoin (scons a (scons b (scons c (scons t (scons d snil))))) sep0)))))
; P2: a joined pair "t 0 d": its length, its first strlen(t) bytes, and the bytes after the separator
(assert (forall ((t Str) (d Str)) (! (and
     (= (strlen (bjoin (scons t (scons d snil)) sep0)) (+ (strlen t) 1 (strlen d)))
     (= (substr (bjoin (scons t (scons d snil)) sep0) 0 (strlen t)) t)
     (= (substr (bjoin (scons t (scons d snil)) sep0) (+ (strlen t) 1) (strlen (bjoin (scons t (scons d snil)) sep0))) d)
     (= (substr (bjoin (scons t (scons d snil)) sep0) (strlen t) (strlen (bjoin (scons t (scons d snil)) sep0))) (sconcat sep0 d)))
   :pattern ((bjoin (scons t (scons d snil)) sep0)))))
(assert (forall ((s Str)) (! (>= (strlen s) 0) :pattern ((strlen s)))))
; a separator followed by d is never d itself (it is one byte longer)
(assert (forall ((a Str) (b Str)) (! (= (strlen (sconcat a b)) (+ (strlen a) (strlen b))) :pattern ((sconcat a b)))))
; mapDig(doc, path): the value a document holds at an index field's path (a pure function of the
; document, named so contracts can refer to it)
(declare-fun mapdig (Int Slice) Any)
; the entry list stored in a serialised kvindex.Doc (proto round trip, abstract)
(declare-fun docentries (Str) SL)
