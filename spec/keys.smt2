; ---- composite keys: components joined by a single 0x00 byte (spec vocabulary for C16/C03/C09) ----
; nozero(s): s contains no 0x00 byte
; @literal nozero
; @literal bzero
; the separator []byte{0} as the code builds it: a 1-byte zeroed array with byte 0 stored at 0
(define-fun sep0 () Str (bset (bzero 1) 0 0))
; length and indexing of component lists
(assert (= (sllen snil) 0))
(assert (forall ((h Str) (t SL)) (! (= (sllen (scons h t)) (+ 1 (sllen t))) :pattern ((sllen (scons h t))))))
(assert (forall ((l SL)) (! (>= (sllen l) 0) :pattern ((sllen l)))))
(assert (forall ((h Str) (t SL)) (! (= (slnth (scons h t) 0) h) :pattern ((slnth (scons h t) 0)))))
(assert (forall ((h Str) (t SL) (i Int)) (! (=> (> i 0) (= (slnth (scons h t) i) (slnth t (- i 1)))) :pattern ((slnth (scons h t) i)))))
(define-fun-rec allnz ((l SL)) Bool (ite ((_ is snil) l) true (and (nozero (shd l)) (allnz (stl l)))))
; --- standard-library axioms (bytes.Join / bytes.Split / bytes.HasPrefix), validated by a bounded
; --- differential test against the real functions (scripts/validate_axioms.go)
; A1: splitting a join of NUL-free components at NUL gives the components back
(assert (forall ((l SL)) (! (=> (and (allnz l) (not ((_ is snil) l))) (= (bsplit (bjoin l sep0) sep0) l)) :pattern ((bjoin l sep0)))))
; A2: a one-byte component {b}: NUL-free iff b != 0; its byte 0 is b; the empty component is NUL-free
(assert (forall ((b Int)) (! (=> (and (<= 0 b) (< b 256)) (and (= (nozero (bset (bzero 1) 0 b)) (not (= b 0))) (= (bget (bset (bzero 1) 0 b) 0) b) (= (strlen (bset (bzero 1) 0 b)) 1))) :pattern ((bset (bzero 1) 0 b)))))
(assert (nozero (bzero 0)))
(assert (= (strlen (bzero 0)) 0))
; A3: prefixes. lprefix(p, l): the component list p is a prefix of the component list l
(define-fun-rec lprefix ((p SL) (l SL)) Bool
  (ite ((_ is snil) p) true (ite ((_ is snil) l) false (and (= (shd p) (shd l)) (lprefix (stl p) (stl l))))))
(define-fun-rec butlast ((q SL)) SL
  (ite ((_ is snil) q) snil (ite ((_ is snil) (stl q)) snil (scons (shd q) (butlast (stl q))))))
(define-fun-rec lastempty ((q SL)) Bool
  (ite ((_ is snil) q) false (ite ((_ is snil) (stl q)) (= (strlen (shd q)) 0) (lastempty (stl q)))))
; a key "p0 0 p1 0 ... pk 0" (NUL-free components followed by one empty component) is a byte prefix of
; the join of the NUL-free list l exactly when p0..pk is a proper component-prefix of l
(assert (forall ((q SL) (l SL)) (! (=> (and (lastempty q) (allnz (butlast q)) (allnz l) (not ((_ is snil) (butlast q))))
   (= (hasprefix (bjoin l sep0) (bjoin q sep0)) (and (lprefix (butlast q) l) (> (sllen l) (sllen (butlast q))))))
   :pattern ((hasprefix (bjoin l sep0) (bjoin q sep0))))))
; lengths: a key is at least as long as any of its prefixes; a join is at least as long as its first component
(assert (forall ((k Str) (p Str)) (! (=> (hasprefix k p) (>= (strlen k) (strlen p))) :pattern ((hasprefix k p)))))
(assert (forall ((h Str) (t SL)) (! (>= (strlen (bjoin (scons h t) sep0)) (strlen h)) :pattern ((bjoin (scons h t) sep0)))))
(assert (forall ((p Str)) (! (hasprefix p p) :pattern ((hasprefix p p)))))
; ---- key layout as spec functions (each proved equal to the real builder by a code lemma, C16) ----
; @strconst lit_v "v"
; @strconst lit_e "e"
; @strconst lit_s "s"
; @strconst lit_d "d"
; @strconst lit_g "g"
(declare-const lit_v Str)
(declare-const lit_e Str)
(declare-const lit_s Str)
(declare-const lit_d Str)
(declare-const lit_g Str)
(define-fun byte1 ((b Int)) Str (bset (bzero 1) 0 b))
(define-fun vkeyOf ((g Str) (id Str)) Str (bjoin (scons lit_v (scons g (scons id snil))) sep0))
(define-fun gkeyOf ((g Str)) Str (bjoin (scons lit_g (scons g snil)) sep0))
(define-fun ekeyOf ((g Str) (id Str) (s Str) (d Str) (l Str) (t Int)) Str (bjoin (scons lit_e (scons g (scons id (scons s (scons d (scons l (scons (byte1 t) snil))))))) sep0))
(define-fun skeyOf ((g Str) (s Str) (d Str) (id Str) (l Str) (t Int)) Str (bjoin (scons lit_s (scons g (scons s (scons d (scons id (scons l (scons (byte1 t) snil))))))) sep0))
(define-fun dkeyOf ((g Str) (s Str) (d Str) (id Str) (l Str) (t Int)) Str (bjoin (scons lit_d (scons g (scons d (scons s (scons id (scons l (scons (byte1 t) snil))))))) sep0))
; per-vertex scan prefixes of the by-source / by-destination indexes (proved equal to SrcEdgePrefix / DstEdgePrefix by lemma keys.layout.prefixes)
(define-fun spfxOf ((g Str) (v Str)) Str (bjoin (scons lit_s (scons g (scons v (scons (bzero 0) snil)))) sep0))
(define-fun dpfxOf ((g Str) (v Str)) Str (bjoin (scons lit_d (scons g (scons v (scons (bzero 0) snil)))) sep0))
; a join starts with its first component
(assert (forall ((h Str) (t SL)) (! (hasprefix (bjoin (scons h t) sep0) h) :pattern ((bjoin (scons h t) sep0)))))
; second component of a split join (first two components NUL-free)
(assert (forall ((a Str) (b Str) (t SL)) (! (=> (and (nozero a) (nozero b) ((_ is snil) t)) (= (slnth (bsplit (bjoin (scons a (scons b t)) sep0) sep0) 1) b)) :pattern ((bjoin (scons a (scons b t)) sep0)))))
; first byte: shared by a key and each of its non-empty prefixes; the first byte of a join is that of its first component
; @literal firstbyte
(assert (forall ((k Str) (p Str)) (! (=> (and (hasprefix k p) (>= (strlen p) 1)) (= (bget k 0) (bget p 0))) :pattern ((hasprefix k p)))))
(assert (forall ((h Str) (t SL)) (! (=> (>= (strlen h) 1) (= (bget (bjoin (scons h t) sep0) 0) (bget h 0))) :pattern ((bjoin (scons h t) sep0)))))
