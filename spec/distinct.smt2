; ---- distinct() (C01): the uniqueness key of a row ----
; @literal bzero
; gosyntax(v): fmt.Sprintf("%#v", v) - the Go-syntax rendering of a value (a function of the value).
; ASSUMED of package fmt for the property's reading of "distinct values": on JSON values two renderings
; are equal only for equal values, and a rendering contains no NUL byte, so that the NUL-joined tuple of
; renderings determines the tuple of values.
(declare-fun gosyntax (Any) Str)
; bjoinA(elements, offset, n, sep): bytes.Join of the n elements of a slice (see gvc/calls.go)
(declare-fun bjoinA ((Array Int Str) Int Int Str) Str)
(define-fun dsep () Str (bset (bzero 1) 0 0))
; dpart(t, f): the key part of row t for field f - its rendering when the field exists, else empty
(define-fun dpart ((t Any) (f Str)) Str (ite (pathExists t f) (gosyntax (pathLookup t f)) (bzero 0)))
; dfound(t, fields): every listed field exists in the row
(define-fun dfound ((t Any) (f (Array Int Str)) (fo Int) (n Int)) Bool
  (forall ((m Int)) (! (=> (and (<= 0 m) (< m n)) (pathExists t (select f (ix fo m)))) :pattern ((select f (ix fo m))))))
; dkey(t, fields): the NUL-joined parts of row t. Definition: whatever array holds exactly the parts,
; its join is the key (bytes.Join is a function of the elements it is given).
(declare-fun dkey (Any (Array Int Str) Int Int) Str)
(assert (forall ((t Any) (s (Array Int Str)) (so Int) (f (Array Int Str)) (fo Int) (n Int))
  (! (=> (forall ((m Int)) (=> (and (<= 0 m) (< m n)) (= (select s (ix so m)) (dpart t (select f (ix fo m))))))
         (= (bjoinA s so n dsep) (dkey t f fo n)))
     :pattern ((bjoinA s so n dsep) (dkey t f fo n)))))
; dseen(k, key): key is the key of one of the first k rows that qualify (defined by contract axioms)
(declare-fun dseen (Int Str) Bool)
