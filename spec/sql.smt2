; ---- SQL statement text (C20) ----
; sqlfixed(s): the text s is made only of program constants and identifier-safe names, so its SQL
; token structure does not depend on any client-supplied character.
; identsafe(s): s consists of identifier characters only (letters, digits, underscore).
; @literal sqlfixed
(declare-fun sqlfixed (Str) Bool)
(declare-fun identsafe (Str) Bool)
(assert (forall ((a Str) (b Str)) (! (= (sqlfixed (sconcat a b)) (and (sqlfixed a) (sqlfixed b))) :pattern ((sconcat a b)))))
(assert (forall ((a Str)) (! (=> (identsafe a) (sqlfixed a)) :pattern ((identsafe a)))))
(assert (forall ((a Str)) (! (=> (identsafe a) (sqlfixed a)) :pattern ((sqlfixed a)))))
