; ---- authentication / authorisation vocabulary (C05, C18) ----
; outcome of Authenticate.Validate(md) for an authenticator and a metadata map
(declare-fun vUser (Any Int) Str)
(declare-fun vErr (Any Int) Any)
; outcome of Access.Enforce(user, graph, operation)
(declare-fun eErr (Any Str Str Str) Any)
; what the wrapped handler returns for (handler, context, request)
(declare-fun hres0 (Int Any Any) Any)
(declare-fun hres1 (Int Any Any) Any)
(declare-fun hsres (Int Any Any) Any)
; gRPC status code carried by an error value
(declare-fun codeOf (Any) Int)
; casbin's decision for (enforcer, subject, object, action)
(declare-fun casbinAllows (Int Any Any Any) Bool)
; the credentials parseBasicAuth reads from a header value (named results of a pure function)
(declare-fun bauser (Str) Str)
(declare-fun bapass (Str) Str)
(declare-fun baok (Str) Bool)
