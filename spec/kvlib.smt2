; direction of a badger iterator (true = created with Reverse)
(declare-fun itrev (Int) Bool)
