; direction of a badger iterator (true = created with Reverse)
(declare-fun itrev (Int) Bool)
; itemkey(item): the key of the entry a badger *Item stands for (Txn.Get)
(declare-fun itemkey (Int) Str)
