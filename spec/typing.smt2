; ---- static typing of traversals (C01 / C14) ----
; tnext(statement, t): the element type after the statement when the type before it is t, or -1 when
; the statement is rejected for that type. Its rows are stated as contract axioms (they mention Go
; type identities); both compilers are proved against the same rows.
(declare-fun tnext (Any Int) Int)
; tseq(ref, off, n): the type after the first n statements of the statement slice (ref, off)
(declare-fun tseq (Int Int Int) Int)
; tcov(ref, off, n): the first n statements are all of kinds the rows cover
(declare-fun tcov (Int Int Int) Bool)
(declare-fun tcovered (Any) Bool)
