; ---- JSON values, number-likeness, deep equality (spec vocabulary for C08/C14/C19) ----
; isjson: the dynamic kinds structpb.Value.AsInterface / element data can produce
(define-fun isjson ((v Any)) Bool
  (or ((_ is ANil) v) ((_ is ABool) v) ((_ is ANum) v) ((_ is AStr) v) ((_ is AList) v) ((_ is AMap) v)))
; numeric text: strconv.ParseFloat(s, 64) succeeds, and its value
(declare-fun numtext (Str) Bool)
(declare-fun textnum (Str) F64)
; the property's notion of a number: JSON numbers and numeric text -- NOT booleans
(define-fun isnum ((v Any)) Bool
  (or ((_ is ANum) v) (and ((_ is AStr) v) (numtext (astr v)))))
(define-fun num ((v Any)) F64
  (ite ((_ is ANum) v) (anum v) (textnum (astr v))))
; what github.com/spf13/cast v1.3.0 ToFloat64E accepts on JSON values (from its source)
(define-fun castable ((v Any)) Bool
  (or ((_ is ANum) v) ((_ is ABool) v) (and ((_ is AStr) v) (numtext (astr v)))))
(define-fun castnum ((v Any)) F64
  (ite ((_ is ANum) v) (anum v)
  (ite ((_ is ABool) v) (ite (abool v) ((_ to_fp 11 53) RNE 1.0) (_ +zero 11 53))
       (textnum (astr v)))))
(define-fun fgt ((a F64) (b F64)) Bool (fp.gt a b))
(define-fun fge ((a F64) (b F64)) Bool (fp.geq a b))
(define-fun flt ((a F64) (b F64)) Bool (fp.lt a b))
(define-fun fle ((a F64) (b F64)) Bool (fp.leq a b))
; reflect.DeepEqual on JSON values: structural; numbers by ==, so NaN != NaN and +0 == -0.
; Lists and maps are compared element-wise by the library; their equality is left abstract.
(declare-fun deq (Any Any) Bool)
; path lookup in a traveler (jsonpath library + element data): abstract
(declare-fun pathLookup (Any Str) Any)
(declare-fun asJSON (Int) Any)
; meaning of a has-expression tree rooted at a reference (defined per function by 'axiom' clauses)
(declare-fun hm (Any Int) Bool)
; the value MatchesCondition returns for (traveler, condition reference) -- a name for
; the result of a pure deterministic function (see 'function' clause in its contract)
(declare-fun condSem (Any Int) Bool)
; the JSONPath a field reference denotes (jsonpath.GetJSONPath), abstract
(declare-fun jpath (Str) Str)
; math.Floor on float64: round toward negative infinity (exact; Floor(+-0) = +-0, NaN and infinities unchanged)
(define-fun ffloor ((x F64)) F64 (fp.roundToIntegral RTN x))
