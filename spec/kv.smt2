; ---- byte order of keys (spec vocabulary for iterators: C03, C04, C09, C10) ----
; ble: bytes.Compare(a, b) <= 0, a total order on byte strings
(declare-fun ble (Str Str) Bool)
(define-fun blt ((a Str) (b Str)) Bool (and (ble a b) (not (= a b))))
(assert (forall ((a Str)) (! (ble a a) :pattern ((ble a a)))))
(assert (forall ((a Str) (b Str)) (! (=> (and (ble a b) (ble b a)) (= a b)) :pattern ((ble a b) (ble b a)))))
(assert (forall ((a Str) (b Str) (c Str)) (! (=> (and (ble a b) (ble b c)) (ble a c)) :pattern ((ble a b) (ble b c)))))
(assert (forall ((a Str) (b Str)) (! (or (ble a b) (ble b a)) :pattern ((ble a b)))))
; a key sorts at or after each of its prefixes; the keys sharing a prefix are contiguous
(assert (forall ((k Str) (p Str)) (! (=> (hasprefix k p) (ble p k)) :pattern ((hasprefix k p)))))
(assert (forall ((a Str) (b Str) (c Str) (p Str)) (! (=> (and (hasprefix a p) (hasprefix c p) (ble a b) (ble b c)) (hasprefix b p))
   :pattern ((hasprefix a p) (hasprefix c p) (ble a b) (ble b c)))))
; the same with the prefix itself as the lower end (the shape a Seek(p) scan produces)
(assert (forall ((b Str) (c Str) (p Str)) (! (=> (and (hasprefix c p) (ble p b) (ble b c)) (hasprefix b p))
   :pattern ((hasprefix c p) (ble p b) (ble b c)))))
; serialised form of a protobuf message (proto.Marshal), abstract
(declare-fun pmarshal (Any) Str)
; keys of the secondary index live in their own key families (first component f, t, i or D)
(declare-fun idxkey (Str) Bool)
; validity of elements as decided by the validators (named results of pure functions)
(declare-fun vertexValid (Int) Bool)
(declare-fun edgeValid (Int) Bool)
; @strconst lit_f "f"
; @strconst lit_t "t"
; @strconst lit_i "i"
; @strconst lit_D "D"
(declare-const lit_f Str)
(declare-const lit_t Str)
(declare-const lit_i Str)
(declare-const lit_D Str)
; index keys: the first NUL-separated component is one of the index family tags
(declare-fun firstcomp (Str) Str)
(assert (forall ((k Str)) (! (= (idxkey k) (or (= (firstcomp k) lit_f) (= (firstcomp k) lit_t) (= (firstcomp k) lit_i) (= (firstcomp k) lit_D))) :pattern ((idxkey k)))))
; the first component of a join is its first element when that element is NUL-free
(assert (forall ((h Str) (t SL)) (! (=> (nozero h) (= (firstcomp (bjoin (scons h t) (bset (bzero 1) 0 0))) h)) :pattern ((bjoin (scons h t) (bset (bzero 1) 0 0))))))
; a key that extends a prefix of at least two components has that prefix's first component
(assert (forall ((k Str) (h Str) (t SL)) (! (=> (and (nozero h) (not ((_ is snil) t)) (hasprefix k (bjoin (scons h t) (bset (bzero 1) 0 0)))) (= (firstcomp k) h))
   :pattern ((hasprefix k (bjoin (scons h t) (bset (bzero 1) 0 0)))))))
; label carried by a serialised vertex (named result of proto.Unmarshal on a gripql.Vertex)
(declare-fun vlabel (Str) Str)
