; ---- byte order of keys (spec vocabulary for iterators: C03, C04, C09, C10) ----
; ble: bytes.Compare(a, b) <= 0, a total order on byte strings
(declare-fun ble (Str Str) Bool)
(define-fun blt ((a Str) (b Str)) Bool (and (ble a b) (not (= a b))))
(assert (forall ((a Str)) (! (ble a a) :pattern ((ble a a)))))
(assert (forall ((a Str) (b Str)) (! (=> (and (ble a b) (ble b a)) (= a b)) :pattern ((ble a b) (ble b a)))))
(assert (forall ((a Str) (b Str) (c Str)) (! (=> (and (ble a b) (ble b c)) (ble a c)) :pattern ((ble a b) (ble b c)))))
(assert (forall ((a Str) (b Str)) (! (or (ble a b) (ble b a)) :pattern ((ble a b)))))
; a key sorts at or after each of its prefixes; the keys sharing a prefix are contiguous
(assert (forall ((k Str) (p Str)) (! (=> (hasprefix k p) (ble p k)) :pattern ((hasprefix k p)))))
(assert (forall ((a Str) (b Str) (c Str) (p Str)) (! (=> (and (hasprefix a p) (hasprefix c p) (ble a b) (ble b c)) (hasprefix b p))
   :pattern ((hasprefix a p) (hasprefix c p) (ble a b) (ble b c)))))
