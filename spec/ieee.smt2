; ---- order-preserving number encoding (C09) ----
; f64bits: math.Float64bits as an unsigned integer in [0, 2^64); be64: the 8 big-endian
; bytes binary.BigEndian.PutUint64 writes; un64 = binary.BigEndian.Uint64 on 8 bytes.
(declare-fun f64bits (F64) Int)
(declare-fun f64frombits (Int) F64)
(declare-fun un64 (Str) Int)
(declare-fun be64 (Int) Str)
(declare-fun uvar (Int) Str)
(declare-fun unuvar (Str) Int)
(assert (forall ((f F64)) (! (and (<= 0 (f64bits f)) (< (f64bits f) 18446744073709551616)) :pattern ((f64bits f)))))
; bits -> float -> bits and float -> bits -> float are inverse on non-NaN values
(assert (forall ((f F64)) (! (=> (not (fp.isNaN f)) (= (f64frombits (f64bits f)) f)) :pattern ((f64bits f)))))
; big-endian bytes: 8 bytes, decodable, and lexicographic byte order = numeric order
(assert (forall ((u Int)) (! (=> (and (<= 0 u) (< u 18446744073709551616)) (and (= (strlen (be64 u)) 8) (= (un64 (be64 u)) u))) :pattern ((be64 u)))))
; unsigned varint encoding (binary.PutUvarint / binary.Uvarint) is invertible
(assert (forall ((u Int)) (! (=> (<= 0 u) (= (unuvar (uvar u)) u)) :pattern ((uvar u)))))
