; ---- traveler observers (gdbi.Traveler interface), abstract over implementations ----
(declare-fun tCurrent (Any) Int)
(declare-fun tSignal (Any) Bool)
; ---- stream processes: counting functions over an input history ----
; nonsig(ch, k): number of non-signal travelers among the first k items received on ch
(declare-fun nonsig (Int Int) Int)
; cnt(ch, k): number of items among the first k received on ch that the process forwards
(declare-fun cnt (Int Int) Int)
(define-fun imin ((a Int) (b Int)) Int (ite (<= a b) a b))
(define-fun imax ((a Int) (b Int)) Int (ite (>= a b) a b))
; a field reference exists in a traveler (jsonpath.TravelerPathExists), abstract
(declare-fun pathExists (Any Str) Bool)
; hcntF(ref, n, lo, hi): the float64 a loop obtains by starting from +0 and adding 1.0 for each of the
; first n elements v of the float64 slice at ref with lo <= v < hi (C19 histogram buckets); its defining
; equations are stated, over the current heap, as loop axioms of the function that uses it.
(declare-fun hcntF (Int Int (_ FloatingPoint 11 53) (_ FloatingPoint 11 53)) (_ FloatingPoint 11 53))
; ---- lookup steps (C01): the graph the traversal reads, as the interface answers it ----
; vexists(db, id): db.GetVertex(id, _) finds a vertex (the graph does not change while the traversal runs)
(declare-fun vexists (Any Str) Bool)
(declare-fun eexists (Any Str) Bool)
; fnd(m): how many of the first m requested ids exist; defining equations are contract axioms
(declare-fun fnd (Int) Int)
; vlistlen(db), vlistid(db, j): length and j-th id of db.GetVertexList (likewise for edges)
(declare-fun vlistlen (Any) Int)
(declare-fun vlistid (Any Int) Str)
(declare-fun elistlen (Any) Int)
(declare-fun elistid (Any Int) Str)
; ---- aggregations over field types / field names (C19) ----
; ftype(v): the name gripql.GetFieldType gives to a value; tcnt(name, k): how many of the first k
; travelers of the aggregation's input have a value of that type name (defined by contract axioms)
(declare-fun ftype (Any) Str)
(declare-fun tcnt (Str Int) Int)
; csum(k): total number of items the first k inner steps of both() produced (defined by contract axioms)
(declare-fun csum (Int) Int)
; tMark(t, label): the element a traveler has marked under a label (0 when none)
(declare-fun tMark (Any Str) Int)
; label scans (C01/C02): lscanlen(db, label), lscanid(db, label, j): what db.VertexLabelScan(label) yields;
; lsum(m): total over the first m labels of the step (defined by contract axioms)
(declare-fun lscanlen (Any Str) Int)
(declare-fun lscanid (Any Str Int) Str)
(declare-fun lsum (Int) Int)
; rkindOf(t): the reflect.Kind of a reflect.Type value (named; see externs.gvc)
(declare-fun rkindOf (Any) Int)
; kcnt(key, k): how many of the first k travelers of a field aggregation's input have an object with that key
; at the aggregated field (defined by contract axioms)
(declare-fun kcnt (Str Int) Int)
