; ---- traveler observers (gdbi.Traveler interface), abstract over implementations ----
(declare-fun tCurrent (Any) Int)
(declare-fun tSignal (Any) Bool)
